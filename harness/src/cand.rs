// Constructor drivers: candidate builder states (C06, C09) and candidate texts (C08).
// Events for Trace_Parse.tla.  The recorder only calls the constructors and logs what came back.
use crate::board::{random_builder, Roots};
use crate::util::*;
use cozy_chess::*;

fn code_of(x: Option<(Piece, Color)>) -> u8 {
    match x {
        Some((p, c)) => (c as u8) * 6 + (p as u8) + 1,
        None => 0,
    }
}
fn fopt(x: Option<File>) -> i32 {
    x.map_or(-1, |f| f as i32)
}

pub fn bs_json(bb: &BoardBuilder) -> String {
    let arr: Vec<String> = Square::ALL.iter().map(|&s| code_of(bb.square(s)).to_string()).collect();
    let w = bb.castle_rights(Color::White);
    let k = bb.castle_rights(Color::Black);
    format!(
        "{{\"b\":[{}],\"stm\":{},\"cr\":[{},{},{},{}],\"epsq\":{},\"hmc\":{},\"fmn\":{}}}",
        arr.join(","), bb.side_to_move as u8, fopt(w.short), fopt(w.long), fopt(k.short), fopt(k.long),
        bb.en_passant.map_or(-1, |s| s as i32), bb.halfmove_clock, bb.fullmove_number
    )
}

const PCH: [char; 13] = ['.', 'P', 'N', 'B', 'R', 'Q', 'K', 'p', 'n', 'b', 'r', 'q', 'k'];
const FCH: [char; 8] = ['a', 'b', 'c', 'd', 'e', 'f', 'g', 'h'];

/// The harness's own record writer (independent of the library's Display); TLC checks it against RecordOf.
pub fn record_of(bb: &BoardBuilder, shredder: bool) -> String {
    let mut s = String::new();
    for r in (0..8).rev() {
        let mut e = 0;
        for f in 0..8 {
            let c = code_of(bb.square(Square::index(r * 8 + f)));
            if c == 0 {
                e += 1;
            } else {
                if e > 0 {
                    s.push_str(&e.to_string());
                    e = 0;
                }
                s.push(PCH[c as usize]);
            }
        }
        if e > 0 {
            s.push_str(&e.to_string());
        }
        if r > 0 {
            s.push('/');
        }
    }
    s.push(' ');
    s.push(if bb.side_to_move == Color::White { 'w' } else { 'b' });
    s.push(' ');
    let mut cr = String::new();
    for (ci, &c) in Color::ALL.iter().enumerate() {
        let r = bb.castle_rights(c);
        for (wi, x) in [r.short, r.long].iter().enumerate() {
            if let Some(f) = x {
                let ch = if shredder { FCH[*f as usize] } else if wi == 0 { 'k' } else { 'q' };
                cr.push(if ci == 0 { ch.to_ascii_uppercase() } else { ch });
            }
        }
    }
    if cr.is_empty() {
        cr.push('-');
    }
    s.push_str(&cr);
    s.push(' ');
    match bb.en_passant {
        Some(sq) => {
            s.push(FCH[sq as usize % 8]);
            s.push_str(&(sq as usize / 8 + 1).to_string());
        }
        None => s.push('-'),
    }
    s.push_str(&format!(" {} {}", bb.halfmove_clock, bb.fullmove_number));
    s
}

fn parse_res(text: &str, mode: u8, cmp: Option<&Board>) -> String {
    let r = guard(|| match mode {
        0 => Board::from_fen(text, false),
        1 => Board::from_fen(text, true),
        _ => text.parse::<Board>(),
    });
    match r {
        Some(Ok(b)) => {
            // hash of the same position obtained through the builder (another route, C10)
            let hb = guard(|| BoardBuilder::from_board(&b).build().map(|x| format!("{:016x}", x.hash())).unwrap_or_else(|_| "rebuild-failed".into())).unwrap_or_else(|| "panic".into());
            format!("{{\"k\":\"ok\",\"err\":\"\",\"eq\":{},\"hb\":\"{}\",\"st\":{}}}", cmp.map_or(false, |c| *c == b), hb, proj(&b))
        }
        Some(Err(e)) => format!("{{\"k\":\"err\",\"err\":\"{:?}\",\"eq\":false,\"hb\":\"\",\"st\":{}}}", e, proj_none()),
        None => format!("{{\"k\":\"panic\",\"err\":\"\",\"eq\":false,\"hb\":\"\",\"st\":{}}}", proj_none()),
    }
}

pub fn build_event(sh: &mut Shards, gen: &str, bb: &BoardBuilder) {
    let r = guard(|| bb.build());
    let (k, err, st, board) = match r {
        Some(Ok(b)) => ("ok", String::new(), proj(&b), Some(b)),
        Some(Err(e)) => ("err", format!("{:?}", e), proj_none(), None),
        None => ("panic", String::new(), proj_none(), None),
    };
    let text = record_of(bb, true);
    let rb = match &board {
        Some(b) => match guard(|| BoardBuilder::from_board(b).build()) {
            Some(Ok(x)) => format!("{{\"k\":\"ok\",\"eq\":{},\"same_builder\":{}}}", x == *b, BoardBuilder::from_board(b) == *bb),
            Some(Err(_)) => "{\"k\":\"err\",\"eq\":false,\"same_builder\":false}".to_string(),
            None => "{\"k\":\"panic\",\"eq\":false,\"same_builder\":false}".to_string(),
        },
        None => "{\"k\":\"none\",\"eq\":false,\"same_builder\":false}".to_string(),
    };
    sh.emit(
        "build",
        &format!(
            "\"gen\":\"{}\",\"bs\":{},\"k\":\"{}\",\"err\":\"{}\",\"st\":{},\"text\":{},\"cp\":{},\"ps\":{},\"pp\":{},\"rb\":{}",
            gen, bs_json(bb), k, err, st, jstr(&text), jcps(&text), parse_res(&text, 1, board.as_ref()), parse_res(&text, 2, board.as_ref()), rb
        ),
    );
}

fn find(bb: &BoardBuilder, what: (Piece, Color)) -> Option<Square> {
    Square::ALL.iter().copied().find(|&s| bb.square(s) == Some(what))
}
fn empties(bb: &BoardBuilder) -> Vec<Square> {
    Square::ALL.iter().copied().filter(|&s| bb.square(s).is_none()).collect()
}
fn occupied(bb: &BoardBuilder) -> Vec<Square> {
    Square::ALL.iter().copied().filter(|&s| bb.square(s).is_some()).collect()
}
fn rnd_piece(rng: &mut Rng) -> Piece {
    Piece::index(rng.below(6) as usize)
}
fn rnd_color(rng: &mut Rng) -> Color {
    if rng.chance(1, 2) {
        Color::White
    } else {
        Color::Black
    }
}

/// One random mutation of a builder state.
pub fn mutate(rng: &mut Rng, bb: &mut BoardBuilder) -> &'static str {
    match rng.below(13) {
        0 => {
            let e = empties(bb);
            if !e.is_empty() {
                *bb.square_mut(*rng.pick(&e)) = Some((rnd_piece(rng), rnd_color(rng)));
            }
            "add"
        }
        1 => {
            let o = occupied(bb);
            if !o.is_empty() {
                *bb.square_mut(*rng.pick(&o)) = None;
            }
            "remove"
        }
        2 => {
            let o = occupied(bb);
            let e = empties(bb);
            if !o.is_empty() && !e.is_empty() {
                let from = *rng.pick(&o);
                let x = bb.square(from);
                *bb.square_mut(from) = None;
                *bb.square_mut(*rng.pick(&e)) = x;
            }
            "move"
        }
        3 => {
            let o = occupied(bb);
            if !o.is_empty() {
                let s = *rng.pick(&o);
                let (p, c) = bb.square(s).unwrap();
                *bb.square_mut(s) = Some((p, !c));
            }
            "recolour"
        }
        4 => {
            bb.side_to_move = !bb.side_to_move;
            "flip-side"
        }
        5 | 6 => {
            let c = rnd_color(rng);
            let f = if rng.chance(1, 6) { None } else { Some(File::index(rng.below(8) as usize)) };
            if rng.chance(1, 2) {
                bb.castle_rights_mut(c).short = f;
            } else {
                bb.castle_rights_mut(c).long = f;
            }
            "right"
        }
        7 | 8 => {
            bb.en_passant = if rng.chance(1, 8) { None } else if rng.chance(1, 2) { Some(Square::index(rng.below(64) as usize)) } else { Some(Square::new(File::index(rng.below(8) as usize), Rank::Third.relative_to(!bb.side_to_move))) };
            "ep"
        }
        9 => {
            bb.halfmove_clock = *rng.pick(&[0u8, 50, 99, 100, 101, 102, 128, 200, 255]);
            "hmc"
        }
        10 => {
            bb.fullmove_number = *rng.pick(&[0u16, 0, 1, 2, 65534, 65535]);
            "fmn"
        }
        11 => {
            let o = occupied(bb);
            if !o.is_empty() {
                let s = *rng.pick(&o);
                let (_, c) = bb.square(s).unwrap();
                *bb.square_mut(s) = Some((rnd_piece(rng), c));
            }
            "rekind"
        }
        _ => {
            // move a king next to the other one
            let wk = find(bb, (Piece::King, Color::White));
            let bk = find(bb, (Piece::King, Color::Black));
            if let (Some(w), Some(k)) = (wk, bk) {
                let around: Vec<Square> = get_king_moves(k).iter().filter(|&s| bb.square(s).is_none()).collect();
                if !around.is_empty() {
                    *bb.square_mut(w) = None;
                    *bb.square_mut(*rng.pick(&around)) = Some((Piece::King, Color::White));
                }
            }
            "kings-adjacent"
        }
    }
}

/// Targeted single-defect states below an accepted board (one clause of the soundness statement each).
pub fn targeted(rng: &mut Rng, base: &BoardBuilder, out: &mut Vec<(String, BoardBuilder)>) {
    let us = base.side_to_move;
    let them = !us;
    let mut push = |name: &str, bb: BoardBuilder| out.push((name.to_string(), bb));
    // clocks
    for h in [101u8, 255] {
        let mut bb = base.clone();
        bb.halfmove_clock = h;
        push("hmc-out-of-range", bb);
    }
    let mut bb = base.clone();
    bb.fullmove_number = 0;
    push("fmn-zero", bb);
    // pawn on a back rank
    for &c in &Color::ALL {
        let e: Vec<Square> = empties(base).into_iter().filter(|s| matches!(s.rank(), Rank::First | Rank::Eighth)).collect();
        if !e.is_empty() {
            let mut bb = base.clone();
            *bb.square_mut(*rng.pick(&e)) = Some((Piece::Pawn, c));
            push("pawn-on-back-rank", bb);
        }
    }
    // opponent (side not to move) in check by each kind of piece
    if let Some(k) = find(base, (Piece::King, them)) {
        let mut cands: Vec<(Piece, Square)> = vec![];
        for s in get_knight_moves(k) {
            cands.push((Piece::Knight, s));
        }
        for s in get_pawn_attacks(k, them) {
            cands.push((Piece::Pawn, s));
        }
        for s in get_king_moves(k) {
            cands.push((if s.file() == k.file() || s.rank() == k.rank() { Piece::Rook } else { Piece::Bishop }, s));
            cands.push((Piece::Queen, s));
        }
        for (p, s) in cands {
            if base.square(s).is_none() && !(p == Piece::Pawn && matches!(s.rank(), Rank::First | Rank::Eighth)) {
                let mut bb = base.clone();
                *bb.square_mut(s) = Some((p, us));
                push("opponent-in-check", bb);
            }
        }
    }
    // a second king, no king
    let e = empties(base);
    if !e.is_empty() {
        let mut bb = base.clone();
        *bb.square_mut(*rng.pick(&e)) = Some((Piece::King, rnd_color(rng)));
        push("second-king", bb);
    }
    for &c in &Color::ALL {
        if let Some(k) = find(base, (Piece::King, c)) {
            let mut bb = base.clone();
            *bb.square_mut(k) = None;
            push("no-king", bb);
        }
    }
    // too many pieces / pawns
    let mut bb = base.clone();
    let c = rnd_color(rng);
    let mut n = Square::ALL.iter().filter(|&&s| matches!(bb.square(s), Some((_, cc)) if cc == c)).count();
    for s in empties(&bb) {
        if n >= 17 {
            break;
        }
        if !matches!(s.rank(), Rank::First | Rank::Eighth) && !get_king_moves(s).iter().any(|t| matches!(bb.square(t), Some((Piece::King, _)))) {
            *bb.square_mut(s) = Some((Piece::Knight, c));
            n += 1;
        }
    }
    push("seventeen-pieces", bb);
    let mut bb = base.clone();
    let mut n = Square::ALL.iter().filter(|&&s| bb.square(s) == Some((Piece::Pawn, c))).count();
    for s in empties(&bb) {
        if n >= 9 {
            break;
        }
        if !matches!(s.rank(), Rank::First | Rank::Eighth) {
            *bb.square_mut(s) = Some((Piece::Pawn, c));
            n += 1;
        }
    }
    push("nine-pawns", bb);
    // rights
    for &c in &Color::ALL {
        for short in [true, false] {
            for &f in &File::ALL {
                let mut bb = base.clone();
                if short {
                    bb.castle_rights_mut(c).short = Some(f);
                } else {
                    bb.castle_rights_mut(c).long = Some(f);
                }
                if bb != *base && rng.chance(1, 3) {
                    push("right-on-file", bb);
                }
            }
        }
        // king leaves the back rank while rights stay
        if let Some(k) = find(base, (Piece::King, c)) {
            if let Some(up) = k.try_offset(0, if c == Color::White { 1 } else { -1 }) {
                if base.square(up).is_none() {
                    let mut bb = base.clone();
                    *bb.square_mut(k) = None;
                    *bb.square_mut(up) = Some((Piece::King, c));
                    push("king-off-back-rank", bb);
                }
            }
        }
        // the right's rook replaced by an enemy rook / another piece
        let r = *base.castle_rights(c);
        for f in [r.short, r.long].iter().flatten() {
            let s = Square::new(*f, Rank::First.relative_to(c));
            let mut bb = base.clone();
            *bb.square_mut(s) = Some((Piece::Rook, !c));
            push("right-enemy-rook", bb);
            let mut bb = base.clone();
            *bb.square_mut(s) = Some((Piece::Queen, c));
            push("right-not-a-rook", bb);
            let mut bb = base.clone();
            *bb.square_mut(s) = None;
            push("right-no-rook", bb);
        }
    }
    // en passant
    for &f in &File::ALL {
        for r in [Rank::Third, Rank::Sixth, Rank::Fourth, Rank::Second] {
            if rng.chance(1, 3) {
                let mut bb = base.clone();
                bb.en_passant = Some(Square::new(f, r));
                push("ep-square", bb);
            }
        }
    }
    if let Some(ep) = base.en_passant {
        let pawn = Square::new(ep.file(), Rank::Fourth.relative_to(them));
        let origin = Square::new(ep.file(), Rank::Second.relative_to(them));
        let mut bb = base.clone();
        *bb.square_mut(pawn) = None;
        push("ep-no-pawn", bb);
        let mut bb = base.clone();
        *bb.square_mut(origin) = Some((Piece::Knight, them));
        push("ep-origin-occupied", bb);
        let mut bb = base.clone();
        *bb.square_mut(ep) = Some((Piece::Knight, us));
        push("ep-passed-occupied", bb);
        let mut bb = base.clone();
        *bb.square_mut(pawn) = Some((Piece::Pawn, us));
        push("ep-own-pawn", bb);
    }
    // adjacent kings as the only defect
    if let (Some(w), Some(k)) = (find(base, (Piece::King, Color::White)), find(base, (Piece::King, Color::Black))) {
        for t in get_king_moves(k) {
            if base.square(t).is_none() && rng.chance(1, 2) {
                let mut bb = base.clone();
                *bb.square_mut(w) = None;
                *bb.square_mut(t) = Some((Piece::King, Color::White));
                bb.castle_rights = [CastleRights::EMPTY; 2];
                push("kings-adjacent", bb);
            }
        }
    }
}

pub fn accepted_board(rng: &mut Rng, roots: &Roots) -> Option<Board> {
    let r = rng.below(100);
    let mut b = if r < 35 {
        { let t = rng.pick(&roots.corpus).clone(); guard(|| Board::from_fen(&t, true)).and_then(|r| r.ok())? }
    } else if r < 50 && !roots.curated.is_empty() {
        { let t = rng.pick(&roots.curated).clone(); guard(|| Board::from_fen(&t, true)).and_then(|r| r.ok())? }
    } else if r < 70 {
        let (w, k) = (rng.below(960) as u32, rng.below(960) as u32);
        guard(|| Board::double_chess960_startpos(w, k))?
    } else {
        let mut got = None;
        for _ in 0..200 {
            let bb = random_builder(rng);
            if let Some(Ok(b)) = guard(|| bb.build()) {
                got = Some(b);
                break;
            }
        }
        got?
    };
    for _ in 0..rng.below(16) {
        let mv = legal_moves(&b);
        if mv.is_empty() {
            break;
        }
        let m = *rng.pick(&mv);
        if guard(|| b.play_unchecked(m)).is_none() {
            return None;
        }
    }
    Some(b)
}

pub fn run_cand(args: &Args) {
    silent_panics();
    let seed = args.num("seed", 1);
    let mut rng = Rng::new(seed);
    let roots = Roots::load();
    let mut sh = Shards::new(args.get("out").expect("--out"), args.num("shards", 1) as usize);
    let n = args.num("bases", 200);
    for _ in 0..n {
        let b = match accepted_board(&mut rng, &roots) {
            Some(b) => b,
            None => continue,
        };
        let base = BoardBuilder::from_board(&b);
        sh.next_history();
        build_event(&mut sh, "accepted", &base);
        for _ in 0..args.num("mutations", 10) {
            let mut bb = base.clone();
            let mut name = mutate(&mut rng, &mut bb);
            if rng.chance(1, 5) {
                name = "two-mutations";
                mutate(&mut rng, &mut bb);
            }
            build_event(&mut sh, name, &bb);
        }
        if rng.chance(args.num("targeted-pct", 30), 100) {
            let mut v = vec![];
            targeted(&mut rng, &base, &mut v);
            for (name, bb) in v {
                build_event(&mut sh, &name, &bb);
            }
        }
    }
    for _ in 0..args.num("random", 200) {
        sh.next_history();
        let mut bb = random_builder(&mut rng);
        if rng.chance(1, 3) {
            mutate(&mut rng, &mut bb);
        }
        build_event(&mut sh, "random", &bb);
    }
    println!("{}", sh.finish());
}

// ------------------------------------------------------------------ start-position constructors (C06)
pub fn run_starts(args: &Args) {
    silent_panics();
    let seed = args.num("seed", 1);
    let mut rng = Rng::new(seed);
    let mut sh = Shards::new(args.get("out").expect("--out"), args.num("shards", 1) as usize);
    let one = |sh: &mut Shards, w: u32, k: u32, api: &str| {
        let r = guard(|| if api == "single" { Board::chess960_startpos(w) } else { Board::double_chess960_startpos(w, k) });
        match r {
            Some(b) => {
                let rt = guard(|| Board::from_fen(&format!("{:#}", b), true).map(|x| x == b).unwrap_or(false)).unwrap_or(false);
                let rb = guard(|| BoardBuilder::from_board(&b).build().map(|x| x == b).unwrap_or(false)).unwrap_or(false);
                sh.emit("start", &format!("\"api\":\"{}\",\"w\":{},\"k\":{},\"res\":\"ok\",\"reparse\":{},\"rebuild\":{},\"st\":{}", api, w, k, rt, rb, proj(&b)))
            }
            None => sh.emit("start", &format!("\"api\":\"{}\",\"w\":{},\"k\":{},\"res\":\"panic\",\"reparse\":false,\"rebuild\":false,\"st\":{}", api, w, k, proj_none())),
        }
    };
    for n in 0..960u32 {
        if n % 16 == 0 {
            sh.next_history();
        }
        one(&mut sh, n, n, "single");
    }
    if args.num("all-pairs", 0) == 1 {
        for w in 0..960u32 {
            for k in 0..960u32 {
                if k % 64 == 0 {
                    sh.next_history();
                }
                one(&mut sh, w, k, "double");
            }
        }
    } else {
        for i in 0..args.num("pairs", 2000) {
            if i % 16 == 0 {
                sh.next_history();
            }
            one(&mut sh, rng.below(960) as u32, rng.below(960) as u32, "double");
        }
    }
    // out-of-range Scharnagl numbers must panic (documented), default/startpos must be 518
    sh.next_history();
    for (w, k) in [(960u32, 0u32), (0, 960), (1000, 1000), (u32::MAX, 5)] {
        let r = guard(|| Board::double_chess960_startpos(w, k));
        sh.emit("start_oob", &format!("\"w\":{},\"k\":{},\"panicked\":{}", w.min(100000), k.min(100000), r.is_none()));
    }
    let d = guard(|| (Board::default(), Board::startpos()));
    if let Some((a, b)) = d {
        sh.emit("start_default", &format!("\"default\":{},\"startpos\":{}", proj(&a), proj(&b)));
    }
    println!("{}", sh.finish());
}

// ------------------------------------------------------------------ texts (C08)
fn catalogue(field: usize, rng: &mut Rng, shredder: bool) -> Vec<String> {
    let v: Vec<&str> = match field {
        0 => vec!["", "8/8/8/8/8/8/8", "8/8/8/8/8/8/8/8/8", "rnbqkbnr/pppppppp/8/8/8/8/PPPPPPP/RNBQKBNR", "rnbqkbnr/ppppppppp/8/8/8/8/PPPPPPPP/RNBQKBNR",
                  "rnbqkbnr/pppppppp/8/8/8/8/PPPPPPPP/RNBQKBNX", "rnbqkbnr/pppppppp/9/8/8/8/PPPPPPPP/RNBQKBNR", "rnbqkbnr/pppppppp//8/8/8/PPPPPPPP/RNBQKBNR",
                  "8/8/8/8/8/8/8/8", "k7/8/8/8/8/8/8/KK6", "kK6/8/8/8/8/8/8/8", "k6P/8/8/8/8/8/8/K7", "k7/8/8/8/8/8/8/K6p", "/", "////////", "8", "k7/8/8/8/8/8/8/K7/",
                  "rnbqkbnr/pppppppp/8/8/8/8/PPPPPPPP/RNBQKBNR/8", "rnbqkbnr/pppppppp/44/8/8/8/PPPPPPPP/RNBQKBNR", "rnbqkbnr/pppppppp/80/8/8/8/PPPPPPPP/RNBQKBNR", "rnbqkbnr/pppppppp/08/8/8/8/PPPPPPPP/RNBQKBNR"],
        1 => vec!["", "W", "B", "white", "-", "wb", "x", "ww", "b ", "1"],
        2 => {
            if shredder {
                vec!["", "x", "HAhaH", "-H", "HH", "Z", "1", "i", "é", "KQkq", "H", "A", "a", "h", "E", "e", "HAh", "ABCDEFGH", "--", "Hh-", "I"]
            } else {
                vec!["", "x", "KQkqK", "-K", "KK", "Z", "1", "i", "é", "HAha", "K", "Q", "k", "q", "KQ", "kq", "QKqk", "--", "Kk-", "Kh"]
            }
        }
        3 => vec!["", "e", "e33", "E3", "i3", "e9", "3e", "--", "e0", "a3", "h3", "a6", "h6", "e3", "e6", "d3", "d6", "c4", "e1", "é3", "e3 "],
        4 => vec!["", "x", "-1", "1.5", "1e2", "１", "101", "255", "256", "1000", "99999999999", "+5", "007", "100", "0x10", " 5", "5-", "1 "],
        _ => vec!["", "x", "-1", "0", "65536", "99999999999", "00", "+0", "65535", "+7", "1.0", "１", "70000"],
    };
    let mut out: Vec<String> = v.iter().map(|s| s.to_string()).collect();
    // fields that are a single (or leading / trailing) character of two, three and four UTF-8 bytes
    for w in ["é", "ß", "Ω", "\u{a0}", "٣", "\u{2003}", "１", "\u{1F600}", "éé", "-é", "é-", "wé", "é1"] {
        out.push(w.to_string());
    }
    if field == 0 {
        // empty-square runs whose sum is 8 modulo 2^8 (a narrow file counter would wrap to a full rank)
        for x in ["8".repeat(33), format!("{}48", "9".repeat(28)), format!("p{}", "8".repeat(32)), format!("{}7p", "8".repeat(32))] {
            out.push(format!("rnbqkbnr/pppppppp/{}/8/8/8/PPPPPPPP/RNBQKBNR", x));
            out.push(format!("{}/8/8/8/8/8/8/K6k", x));
        }
    }
    if field == 3 {
        for _ in 0..3 {
            out.push(format!("{}{}", FCH[rng.below(8) as usize], 1 + rng.below(8)));
        }
    }
    out
}

fn parse_event(sh: &mut Shards, gen: &str, text: &str, base: &str, field: i32) {
    sh.emit(
        "parse",
        &format!(
            "\"gen\":\"{}\",\"field\":{},\"t\":{},\"cp\":{},\"base\":{},\"res\":[{},{},{}]",
            gen, field, jstr(text), jcps(text), jcps(base), parse_res(text, 0, None), parse_res(text, 1, None), parse_res(text, 2, None)
        ),
    );
}

pub fn run_parse(args: &Args) {
    silent_panics();
    let seed = args.num("seed", 1);
    let mut rng = Rng::new(seed);
    let roots = Roots::load();
    let mut sh = Shards::new(args.get("out").expect("--out"), args.num("shards", 1) as usize);
    let alphabet: Vec<char> = "pnbrqkPNBRQK12345678/ wb-KQkqHAhaeEdD36x09+".chars().collect();
    let wild: Vec<char> = "é٤１\u{1F600}\0\t\n\u{a0}\u{2003}".chars().collect();
    for _ in 0..args.num("bases", 100) {
        let b = match accepted_board(&mut rng, &roots) {
            Some(b) => b,
            None => continue,
        };
        let mut bb = BoardBuilder::from_board(&b);
        // sometimes put an enemy rook on a back rank whose king is at home (rights that name it must be refused)
        if rng.chance(1, 3) {
            let c = rnd_color(&mut rng);
            let br = Rank::First.relative_to(c);
            let home = Square::ALL.iter().any(|&s| s.rank() == br && bb.square(s) == Some((Piece::King, c)));
            let free: Vec<Square> = Square::ALL.iter().copied().filter(|&s| s.rank() == br && bb.square(s).is_none()).collect();
            if home && !free.is_empty() {
                let mut t = bb.clone();
                *t.square_mut(*rng.pick(&free)) = Some((Piece::Rook, !c));
                if let Some(Ok(_)) = guard(|| t.build()) {
                    bb = t;
                }
            }
        }
        let ah = Color::ALL.iter().all(|&c| {
            let r = bb.castle_rights(c);
            r.short.map_or(true, |f| f == File::H) && r.long.map_or(true, |f| f == File::A)
        });
        for shredder in [true, false] {
            if !shredder && !ah {
                continue; // plain FEN cannot express these rights
            }
            let base = record_of(&bb, shredder);
            sh.next_history();
            parse_event(&mut sh, "canonical", &base, &base, -1);
            let fields: Vec<&str> = base.split(' ').collect();
            // single-field replacement from the catalogue
            for fi in 0..6 {
                for rep in catalogue(fi, &mut rng, shredder) {
                    if rng.chance(args.num("catalogue-pct", 50), 100) {
                        let mut f: Vec<String> = fields.iter().map(|s| s.to_string()).collect();
                        f[fi] = rep;
                        parse_event(&mut sh, "field", &f.join(" "), &base, fi as i32);
                    }
                }
            }
            // castling fields made from the rooks actually on the back ranks: every single rook letter, pairs on one wing,
            // the king's own file, all rook letters at once
            if shredder {
                let mut cands: Vec<String> = vec![];
                for &c in &Color::ALL {
                    let br = Rank::First.relative_to(c);
                    let up = |f: File| { let ch = FCH[f as usize]; if c == Color::White { ch.to_ascii_uppercase() } else { ch } };
                    let rooks: Vec<File> = File::ALL.iter().copied().filter(|&f| bb.square(Square::new(f, br)) == Some((Piece::Rook, c))).collect();
                    // rooks of the other colour standing on this back rank: a right naming them is unsupported
                    for &f in &File::ALL {
                        if bb.square(Square::new(f, br)) == Some((Piece::Rook, !c)) {
                            cands.push(up(f).to_string());
                        }
                    }
                    for &f in &rooks {
                        cands.push(up(f).to_string());
                        for &g in &rooks {
                            if f != g {
                                cands.push(format!("{}{}", up(f), up(g)));
                            }
                        }
                    }
                    if let Some(k) = Square::ALL.iter().copied().find(|&s| bb.square(s) == Some((Piece::King, c))) {
                        cands.push(up(k.file()).to_string());
                        if let Some(&f) = rooks.first() {
                            cands.push(format!("{}{}", up(k.file()), up(f)));
                        }
                    }
                    if rooks.len() > 2 {
                        cands.push(rooks.iter().map(|&f| up(f)).collect());
                    }
                }
                for rep in cands {
                    let mut f: Vec<String> = fields.iter().map(|s| s.to_string()).collect();
                    f[2] = rep;
                    parse_event(&mut sh, "field", &f.join(" "), &base, 2);
                }
            }
            // truncation and extension
            for k in 0..6 {
                parse_event(&mut sh, "truncate", &fields[..k].join(" "), &base, -1);
            }
            for ext in [" x", " 1", " 0 1", " ", "  ", " -"] {
                parse_event(&mut sh, "extend", &format!("{}{}", base, ext), &base, -1);
            }
            parse_event(&mut sh, "space", &format!(" {}", base), &base, -1);
            parse_event(&mut sh, "space", &base.replacen(' ', "  ", 1), &base, -1);
            parse_event(&mut sh, "space", &base.replace(' ', "\t"), &base, -1);
            // a removed / duplicated rank
            let rows: Vec<&str> = fields[0].split('/').collect();
            let mut r2 = rows.clone();
            r2.remove(rng.below(8) as usize);
            parse_event(&mut sh, "field", &format!("{} {}", r2.join("/"), fields[1..].join(" ")), &base, 0);
            let mut r3 = rows.clone();
            r3.insert(rng.below(8) as usize, rows[rng.below(8) as usize]);
            parse_event(&mut sh, "field", &format!("{} {}", r3.join("/"), fields[1..].join(" ")), &base, 0);
            // look-alikes: one character replaced by a code point a sloppy parser might take for it (byte truncation,
            // full-width forms, Unicode case mapping: every K and k, and a few other positions)
            let cs: Vec<char> = base.chars().collect();
            let mut spots: Vec<usize> = (0..cs.len()).filter(|&i| cs[i] == 'K' || cs[i] == 'k').collect();
            for _ in 0..args.num("lookalike-spots", 5) {
                spots.push(rng.below(cs.len() as u64) as usize);
            }
            for i in spots {
                for ch in lookalikes(cs[i]) {
                    let mut c = cs.clone();
                    c[i] = ch;
                    let t: String = c.iter().collect();
                    parse_event(&mut sh, "lookalike", &t, &base, -1);
                }
            }
            // character-level edits
            for _ in 0..args.num("edits", 30) {
                let mut c = cs.clone();
                let pos = rng.below(c.len() as u64) as usize;
                let ch = if rng.chance(1, 8) { *rng.pick(&wild) } else { *rng.pick(&alphabet) };
                match rng.below(3) {
                    0 => {
                        c.remove(pos);
                    }
                    1 => c.insert(pos, ch),
                    _ => c[pos] = ch,
                }
                let t: String = c.iter().collect();
                parse_event(&mut sh, "edit", &t, &base, -1);
            }
        }
    }
    // TLC-generated records (Mode C): parsed as they are, judged on their own
    if let Some(path) = args.get("sfen-file") {
        for (i, t) in read_lines(path).iter().enumerate() {
            if i % 32 == 0 {
                sh.next_history();
            }
            parse_event(&mut sh, "generated", t, "", -1);
        }
    }
    // random strings
    for i in 0..args.num("random", 500) {
        if i % 32 == 0 {
            sh.next_history();
        }
        let n = rng.below(70);
        let t: String = (0..n).map(|_| if rng.chance(1, 12) { *rng.pick(&wild) } else { *rng.pick(&alphabet) }).collect();
        parse_event(&mut sh, "random", &t, "", -1);
    }
    // long digit runs and odd shapes
    sh.next_history();
    for t in ["", " ", "     ", "      ", "8/8/8/8/8/8/8/8 w - - 0 1", "k7/8/8/8/8/8/8/K7 w - - 99999999999999999999 1", "k7/8/8/8/8/8/8/K7 w - - 0 99999999999999999999",
              "k7/8/8/8/8/8/8/K7 w - - 0 1 ", "k7/8/8/8/8/8/8/K7  w - - 0 1", "k7/8/8/8/8/8/8/K7 w  - 0 1", "k7/8/8/8/8/8/8/K7 w - - 0", "k7/8/8/8/8/8/K7 w - - 0 1",
              "k7/8/8/8/8/8/8/K7 w - - +0 +1", "k7/8/8/8/8/8/8/K7 w - - 00 01", "k7/44/8/8/8/8/8/K7 w - - 0 1", "k7/08/8/8/8/8/8/K7 w - - 0 1", "k7/8/8/8/8/8/8/K7é w - - 0 1",
              "4k3/8/8/8/8/8/4K3 w - - 0 1", "4k3/8/8/8/8/8/8/4K3 w  - 0 1"] {
        parse_event(&mut sh, "shape", t, "", -1);
    }
    println!("{}", sh.finish());
}
