// C11: black-box extraction of the Zobrist keys as hash differences of accepted boards that differ in
// exactly one feature (TLC re-checks that claim on the logged states and does all the arithmetic).
use crate::board::Roots;
use crate::util::*;
use cozy_chess::*;

fn limbs(h: u64) -> String {
    format!("[{},{},{},{}]", h & 0xffff, (h >> 16) & 0xffff, (h >> 32) & 0xffff, (h >> 48) & 0xffff)
}

fn build(bb: &BoardBuilder) -> Option<Board> {
    guard(|| bb.build().ok()).flatten()
}

fn kings(bb: &mut BoardBuilder, w: Square, k: Square) {
    *bb.square_mut(w) = Some((Piece::King, Color::White));
    *bb.square_mut(k) = Some((Piece::King, Color::Black));
}

thread_local! { static TABLE: std::cell::RefCell<std::collections::BTreeMap<String, u64>> = std::cell::RefCell::new(Default::default()); }

/// The single feature in which two boards differ, as the spec's feature tuple (JSON), if there is exactly one
/// (or a king of one colour standing on two different squares, one of them the reference square).
fn feature_of(a: &Board, b: &Board) -> Option<String> {
    let mut d: Vec<String> = vec![];
    let mut kings: Vec<(u8, u8)> = vec![];
    for &s in &Square::ALL {
        let (x, y) = (sq_code(a, s), sq_code(b, s));
        if x != y {
            for c in [x, y] {
                if c != 0 {
                    if c == 6 || c == 12 {
                        kings.push((c, s as u8));
                    } else {
                        d.push(format!("[\"pc\",{},{}]", c, s as u8));
                    }
                }
            }
        }
    }
    if a.side_to_move() != b.side_to_move() {
        d.push("[\"stm\"]".to_string());
    }
    for (ci, &c) in Color::ALL.iter().enumerate() {
        let (ra, rb) = (a.castle_rights(c), b.castle_rights(c));
        for (x, y) in [(ra.short, rb.short), (ra.long, rb.long)] {
            if x != y {
                for f in [x, y].iter().flatten() {
                    d.push(format!("[\"cr\",{},{}]", ci, *f as u8));
                }
            }
        }
    }
    if a.en_passant() != b.en_passant() {
        for f in [a.en_passant(), b.en_passant()].iter().flatten() {
            d.push(format!("[\"ep\",{}]", *f as u8));
        }
    }
    if kings.is_empty() && d.len() == 1 {
        return Some(d.remove(0));
    }
    if d.is_empty() && kings.len() == 2 && kings[0].0 == kings[1].0 {
        let c = if kings[0].0 == 6 { 0 } else { 1 };
        let s0 = if c == 0 { 4 } else { 60 };
        let other: Vec<u8> = kings.iter().map(|k| k.1).filter(|&s| s != s0).collect();
        if other.len() == 1 {
            return Some(format!("[\"kr\",{},{}]", c, other[0]));
        }
    }
    None
}

fn emit_pair(sh: &mut Shards, what: &str, a: &Board, b: &Board) {
    if let Some(f) = feature_of(a, b) {
        TABLE.with(|t| {
            t.borrow_mut().entry(f).or_insert(a.hash() ^ b.hash());
        });
    }
    sh.emit("key", &format!("\"what\":\"{}\",\"a\":{},\"o\":{},\"ha\":{},\"ho\":{}", what, proj(a), proj(b), limbs(a.hash()), limbs(b.hash())));
}

pub fn run(args: &Args) {
    silent_panics();
    let seed = args.num("seed", 1);
    let mut rng = Rng::new(seed);
    let mut sh = Shards::new(args.get("out").expect("--out"), 1);
    sh.next_history();
    // king layouts: enough variety that every square is free in some layout
    let layouts = [(Square::E1, Square::E8), (Square::A1, Square::H8), (Square::H1, Square::A8), (Square::C3, Square::F6), (Square::B5, Square::G4)];
    let mut missing = 0u64;
    // piece keys
    for &c in &Color::ALL {
        for &p in &[Piece::Pawn, Piece::Knight, Piece::Bishop, Piece::Rook, Piece::Queen] {
            for &s in &Square::ALL {
                if p == Piece::Pawn && matches!(s.rank(), Rank::First | Rank::Eighth) {
                    continue;
                }
                let mut done = 0;
                for &(w, k) in &layouts {
                    if s == w || s == k {
                        continue;
                    }
                    for &stm in &Color::ALL {
                        let mut base = BoardBuilder::empty();
                        kings(&mut base, w, k);
                        base.side_to_move = stm;
                        let mut with = base.clone();
                        *with.square_mut(s) = Some((p, c));
                        if let (Some(a), Some(b)) = (build(&with), build(&base)) {
                            if done < args.num("witnesses", 2) {
                                emit_pair(&mut sh, "piece", &a, &b);
                                done += 1;
                            }
                        }
                    }
                }
                if done == 0 {
                    missing += 1;
                }
            }
        }
    }
    // castling right keys, from both wings
    for &c in &Color::ALL {
        let br = Rank::First.relative_to(c);
        for &rf in &File::ALL {
            for &kf in &File::ALL {
                if kf == rf {
                    continue;
                }
                let mut base = BoardBuilder::empty();
                let other = Square::new(if rf == File::E { File::D } else { File::E }, Rank::Fifth.relative_to(c));
                if c == Color::White {
                    kings(&mut base, Square::new(kf, br), other);
                } else {
                    kings(&mut base, other, Square::new(kf, br));
                }
                *base.square_mut(Square::new(rf, br)) = Some((Piece::Rook, c));
                let mut with = base.clone();
                if rf > kf {
                    with.castle_rights_mut(c).short = Some(rf);
                } else {
                    with.castle_rights_mut(c).long = Some(rf);
                }
                if (kf as i32 - rf as i32).abs() <= 2 || rng.chance(1, 3) {
                    if let (Some(a), Some(b)) = (build(&with), build(&base)) {
                        emit_pair(&mut sh, "right", &a, &b);
                    }
                }
            }
        }
    }
    // en-passant keys
    for &stm in &Color::ALL {
        for &f in &File::ALL {
            let mut base = BoardBuilder::empty();
            kings(&mut base, Square::A1, Square::A8);
            base.side_to_move = stm;
            *base.square_mut(Square::new(if f == File::A { File::H } else { f }, Rank::Fourth.relative_to(!stm))) = Some((Piece::Pawn, !stm));
            if f == File::A {
                // kings elsewhere so that the a-file is free
                base = BoardBuilder::empty();
                kings(&mut base, Square::H1, Square::H8);
                base.side_to_move = stm;
                *base.square_mut(Square::new(f, Rank::Fourth.relative_to(!stm))) = Some((Piece::Pawn, !stm));
            }
            let mut with = base.clone();
            with.en_passant = Some(Square::new(f, Rank::Third.relative_to(!stm)));
            if let (Some(a), Some(b)) = (build(&with), build(&base)) {
                emit_pair(&mut sh, "ep", &a, &b);
            }
        }
    }
    // side key: builder flip and null move
    for &(w, k) in &layouts {
        let mut base = BoardBuilder::empty();
        kings(&mut base, w, k);
        let mut with = base.clone();
        with.side_to_move = Color::Black;
        if let (Some(a), Some(b)) = (build(&with), build(&base)) {
            emit_pair(&mut sh, "side", &a, &b);
            if let Some(Some(n)) = guard(|| b.null_move()) {
                emit_pair(&mut sh, "side-null", &n, &b);
            }
        }
    }
    // king keys relative to a reference square (accepted boards always have exactly one king per side)
    for &c in &Color::ALL {
        let s0 = if c == Color::White { Square::E1 } else { Square::E8 };
        for &s in &Square::ALL {
            if s == s0 {
                continue;
            }
            // a square for the other king that is adjacent to neither s nor s0
            let others: Vec<Square> = Square::ALL.iter().copied().filter(|&o| o != s && o != s0 && !get_king_moves(o).has(s) && !get_king_moves(o).has(s0)).collect();
            for oi in 0..2 {
                let o = others[(oi * 17 + s as usize) % others.len()];
                let mut a = BoardBuilder::empty();
                let mut b = BoardBuilder::empty();
                if c == Color::White {
                    kings(&mut a, s, o);
                    kings(&mut b, s0, o);
                } else {
                    kings(&mut a, o, s);
                    kings(&mut b, o, s0);
                }
                if let (Some(x), Some(y)) = (build(&a), build(&b)) {
                    emit_pair(&mut sh, "king", &x, &y);
                }
            }
        }
    }
    // wing-only differences: a right on the wrong side of the king is inexpressible and must be refused; if a builder
    // state with one is accepted, the pair (short on f / long on f) is a pair of boards at distance one
    for &c in &Color::ALL {
        let br = Rank::First.relative_to(c);
        for &(kf, rf) in &[(File::E, File::A), (File::E, File::H), (File::B, File::G), (File::G, File::B)] {
            let mut base = BoardBuilder::empty();
            let other = Square::new(if rf == File::E { File::D } else { File::E }, Rank::Fifth.relative_to(c));
            if c == Color::White {
                kings(&mut base, Square::new(kf, br), other);
            } else {
                kings(&mut base, other, Square::new(kf, br));
            }
            *base.square_mut(Square::new(rf, br)) = Some((Piece::Rook, c));
            let mut s1 = base.clone();
            s1.castle_rights_mut(c).short = Some(rf);
            let mut s2 = base.clone();
            s2.castle_rights_mut(c).long = Some(rf);
            if let (Some(a), Some(b)) = (build(&s1), build(&s2)) {
                sh.emit("pairh", &format!("\"a\":{},\"o\":{},\"ha\":{},\"ho\":{}", proj(&a), proj(&b), limbs(a.hash()), limbs(b.hash())));
            }
        }
    }
    sh.emit("extracted", &format!("\"unisolated\":{}", missing));
    // the linear model on other boards: h = XOR of the keys of the position's features
    let roots = Roots::load();
    for _ in 0..args.num("linear", 300) {
        let t = rng.pick(&roots.corpus).clone();
        if let Some(Ok(mut b)) = guard(|| Board::from_fen(&t, true)) {
            for _ in 0..rng.below(10) {
                let mv = legal_moves(&b);
                if mv.is_empty() {
                    break;
                }
                b.play_unchecked(*rng.pick(&mv));
                // null moves inside the walk, preferably right after a double push (ep file set)
                if b.checkers().is_empty() && (rng.chance(1, 6) || (b.en_passant().is_some() && rng.chance(1, 2))) {
                    if let Some(n) = b.null_move() {
                        b = n;
                        sh.emit("lin", &format!("\"a\":{},\"ha\":{}", proj(&b), limbs(b.hash())));
                    }
                }
            }
            sh.emit("lin", &format!("\"a\":{},\"ha\":{}", proj(&b), limbs(b.hash())));
        }
    }
    for _ in 0..args.num("linear-960", 100) {
        if let Some(b) = guard(|| Board::double_chess960_startpos(rng.below(960) as u32, rng.below(960) as u32)) {
            sh.emit("lin", &format!("\"a\":{},\"ha\":{}", proj(&b), limbs(b.hash())));
        }
    }
    // the extracted table as one record; Trace_Hash checks it against the validated pairs, MC_HashKeys decides on it
    let rows: Vec<String> = TABLE.with(|t| t.borrow().iter().map(|(f, k)| format!("{{\"f\":{},\"k\":{}}}", f, limbs(*k))).collect());
    let nk: Vec<String> = TABLE.with(|t| t.borrow().iter().filter(|(f, _)| !f.starts_with("[\"kr\"")).map(|(_, k)| limbs(*k)).collect());
    let kr = |c: u8| -> Vec<String> { TABLE.with(|t| t.borrow().iter().filter(|(f, _)| f.starts_with(&format!("[\"kr\",{},", c))).map(|(_, k)| limbs(*k)).collect()) };
    sh.emit("table", &format!("\"rows\":[{}],\"nonking\":[{}],\"kr0\":[{}],\"kr1\":[{}]", rows.join(","), nk.join(","), kr(0).join(","), kr(1).join(",")));
    sh.emit("decide", "\"go\":true");
    println!("{}", sh.finish());
}
