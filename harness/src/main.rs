// vharness: records executions of the real cozy-chess library as ndjson events
// (impl -> spec) and replays TLC-generated behaviours against it (spec -> impl).
mod util;
mod board;
mod values;
mod cand;
mod hashkeys;

fn main() {
    let argv: Vec<String> = std::env::args().collect();
    let args = util::Args(argv.clone());
    match argv.get(1).map(|s| s.as_str()) {
        Some("board") => board::run(&args),
        Some("bb") => values::run_bb(&args),
        Some("pm") => values::run_pm(&args),
        Some("coord") => values::run_coord(&args),
        Some("geom") => values::run_geom(&args),
        Some("hashkeys") => hashkeys::run(&args),
        Some("cand") => cand::run_cand(&args),
        Some("starts") => cand::run_starts(&args),
        Some("parse") => cand::run_parse(&args),
        _ => {
            eprintln!("usage: vharness <board|...> [--key value]...");
            std::process::exit(2);
        }
    }
}
