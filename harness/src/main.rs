// vharness: records executions of the real cozy-chess library as ndjson events
// (impl -> spec) and replays TLC-generated behaviours against it (spec -> impl).
mod util;
mod board;

fn main() {
    let argv: Vec<String> = std::env::args().collect();
    let args = util::Args(argv.clone());
    match argv.get(1).map(|s| s.as_str()) {
        Some("board") => board::run(&args),
        _ => {
            eprintln!("usage: vharness <board|...> [--key value]...");
            std::process::exit(2);
        }
    }
}
