// Shared helpers: deterministic PRNG, JSON text, projection of a Board to the spec's state.
use cozy_chess::*;
use std::fmt::Write as _;
use std::io::Write;
use std::panic::{catch_unwind, AssertUnwindSafe};

pub struct Rng(pub u64);
impl Rng {
    pub fn new(seed: u64) -> Self {
        let mut r = Rng(seed.wrapping_mul(0x9E3779B97F4A7C15) ^ 0xD1B54A32D192ED03);
        for _ in 0..4 {
            r.next();
        }
        r
    }
    // splitmix64
    pub fn next(&mut self) -> u64 {
        self.0 = self.0.wrapping_add(0x9E3779B97F4A7C15);
        let mut z = self.0;
        z = (z ^ (z >> 30)).wrapping_mul(0xBF58476D1CE4E5B9);
        z = (z ^ (z >> 27)).wrapping_mul(0x94D049BB133111EB);
        z ^ (z >> 31)
    }
    pub fn below(&mut self, n: u64) -> u64 {
        if n == 0 {
            0
        } else {
            self.next() % n
        }
    }
    pub fn chance(&mut self, num: u64, den: u64) -> bool {
        self.below(den) < num
    }
    pub fn pick<'a, T>(&mut self, v: &'a [T]) -> &'a T {
        &v[self.below(v.len() as u64) as usize]
    }
}

thread_local! { static GUARDED: std::cell::Cell<u32> = std::cell::Cell::new(0); }

/// Panics inside `guard` (code under test) are silent data; panics of the harness itself are printed.
pub fn silent_panics() {
    let default = std::panic::take_hook();
    std::panic::set_hook(Box::new(move |info| {
        if GUARDED.with(|g| g.get()) == 0 {
            default(info);
        }
    }));
}

/// Run `f`, turning a panic into `None`. A panic in the code under test is data, not a harness failure.
pub fn guard<T>(f: impl FnOnce() -> T) -> Option<T> {
    GUARDED.with(|g| g.set(g.get() + 1));
    let r = catch_unwind(AssertUnwindSafe(f)).ok();
    GUARDED.with(|g| g.set(g.get() - 1));
    r
}

pub fn jstr(s: &str) -> String {
    let mut o = String::with_capacity(s.len() + 2);
    o.push('"');
    for c in s.chars() {
        match c {
            '"' => o.push_str("\\\""),
            '\\' => o.push_str("\\\\"),
            c if (c as u32) < 0x20 || (c as u32) > 0x7e => {
                let mut buf = [0u16; 2];
                for u in c.encode_utf16(&mut buf) {
                    let _ = write!(o, "\\u{:04x}", u);
                }
            }
            c => o.push(c),
        }
    }
    o.push('"');
    o
}

/// Unicode code points of a text, as a JSON array (TLC analyses texts on these, not on strings).
pub fn jcps(s: &str) -> String {
    let v: Vec<String> = s.chars().map(|c| (c as u32).to_string()).collect();
    format!("[{}]", v.join(","))
}

pub fn jlist<T: std::fmt::Display>(v: &[T]) -> String {
    let v: Vec<String> = v.iter().map(|x| x.to_string()).collect();
    format!("[{}]", v.join(","))
}

pub fn jbb(bb: BitBoard) -> String {
    let v: Vec<String> = bb.iter().map(|s| (s as u8).to_string()).collect();
    format!("[{}]", v.join(","))
}

pub fn pcode(p: Option<Piece>) -> u8 {
    p.map_or(0, |p| p as u8 + 1)
}
pub fn jmove(m: Move) -> String {
    format!("[{},{},{}]", m.from as u8, m.to as u8, pcode(m.promotion))
}
pub fn jmoves(v: &[Move]) -> String {
    let v: Vec<String> = v.iter().map(|&m| jmove(m)).collect();
    format!("[{}]", v.join(","))
}
pub fn piece_of(code: u8) -> Option<Piece> {
    if code == 0 {
        None
    } else {
        Piece::try_index(code as usize - 1)
    }
}
pub fn mk_move(f: u8, t: u8, p: u8) -> Move {
    Move { from: Square::index(f as usize), to: Square::index(t as usize), promotion: piece_of(p) }
}

fn fopt(x: Option<File>) -> i32 {
    x.map_or(-1, |f| f as i32)
}

pub fn sq_code(b: &Board, s: Square) -> u8 {
    match (b.piece_on(s), b.color_on(s)) {
        (Some(p), Some(c)) => (c as u8) * 6 + (p as u8) + 1,
        _ => 0,
    }
}

/// The projection: exactly the spec's state plus the cached/derived values.
pub fn proj(b: &Board) -> String {
    let arr: Vec<String> = Square::ALL.iter().map(|&s| sq_code(b, s).to_string()).collect();
    let w = b.castle_rights(Color::White);
    let k = b.castle_rights(Color::Black);
    format!(
        "{{\"b\":[{}],\"stm\":{},\"cr\":[{},{},{},{}],\"ep\":{},\"hmc\":{},\"fmn\":{},\"chk\":{},\"pin\":{},\"h\":\"{:016x}\",\"hn\":\"{:016x}\"}}",
        arr.join(","),
        b.side_to_move() as u8,
        fopt(w.short),
        fopt(w.long),
        fopt(k.short),
        fopt(k.long),
        fopt(b.en_passant()),
        b.halfmove_clock(),
        b.fullmove_number(),
        jbb(b.checkers()),
        jbb(b.pinned()),
        b.hash(),
        b.hash_without_ep()
    )
}

/// Fixed-shape placeholder where no board exists (failed constructor).
pub fn proj_none() -> String {
    let z = vec!["0"; 64].join(",");
    format!("{{\"b\":[{}],\"stm\":0,\"cr\":[-1,-1,-1,-1],\"ep\":-1,\"hmc\":0,\"fmn\":0,\"chk\":[],\"pin\":[],\"h\":\"\",\"hn\":\"\"}}", z)
}

pub fn legal_moves(b: &Board) -> Vec<Move> {
    let mut v = Vec::new();
    b.generate_moves(|m| {
        v.extend(m);
        false
    });
    v
}

pub fn all_move_values() -> Vec<Move> {
    let mut v = Vec::with_capacity(64 * 64 * 7);
    for &f in &Square::ALL {
        for &t in &Square::ALL {
            for p in 0..7u8 {
                v.push(Move { from: f, to: t, promotion: piece_of(p) });
            }
        }
    }
    v
}

/// Round-robin shard writer; a history (reset-delimited) always stays in one shard.
pub struct Shards {
    files: Vec<std::io::BufWriter<std::fs::File>>,
    cur: usize,
    pub events: u64,
    pub histories: u64,
    pub kinds: std::collections::BTreeMap<String, u64>,
    pub classes: std::collections::BTreeMap<String, u64>,
}
impl Shards {
    pub fn new(prefix: &str, n: usize) -> Self {
        let files = (0..n)
            .map(|i| std::io::BufWriter::new(std::fs::File::create(format!("{}.{}.ndjson", prefix, i)).expect("create shard")))
            .collect();
        Shards { files, cur: 0, events: 0, histories: 0, kinds: Default::default(), classes: Default::default() }
    }
    pub fn next_history(&mut self) {
        self.cur = (self.cur + 1) % self.files.len();
        self.histories += 1;
    }
    pub fn emit(&mut self, kind: &str, body: &str) {
        let f = &mut self.files[self.cur];
        if body.is_empty() {
            writeln!(f, "{{\"ev\":\"{}\"}}", kind).unwrap();
        } else {
            writeln!(f, "{{\"ev\":\"{}\",{}}}", kind, body).unwrap();
        }
        self.events += 1;
        *self.kinds.entry(kind.to_string()).or_insert(0) += 1;
    }
    /// Coverage accounting only (never a verdict): how often a class of transition / state was exercised.
    pub fn class(&mut self, name: &str) {
        *self.classes.entry(name.to_string()).or_insert(0) += 1;
    }
    pub fn finish(mut self) -> String {
        for f in &mut self.files {
            f.flush().unwrap();
        }
        let kinds: Vec<String> = self.kinds.iter().map(|(k, v)| format!("\"{}\":{}", k, v)).collect();
        let classes: Vec<String> = self.classes.iter().map(|(k, v)| format!("\"{}\":{}", k, v)).collect();
        format!("{{\"events\":{},\"histories\":{},\"kinds\":{{{}}},\"classes\":{{{}}}}}", self.events, self.histories, kinds.join(","), classes.join(","))
    }
}

pub struct Args(pub Vec<String>);
impl Args {
    pub fn get(&self, key: &str) -> Option<&str> {
        let k = format!("--{}", key);
        self.0.iter().position(|a| *a == k).and_then(|i| self.0.get(i + 1)).map(|s| s.as_str())
    }
    pub fn num(&self, key: &str, default: u64) -> u64 {
        self.get(key).and_then(|v| v.parse().ok()).unwrap_or(default)
    }
    pub fn has(&self, key: &str) -> bool {
        let k = format!("--{}", key);
        self.0.iter().any(|a| *a == k)
    }
    pub fn list(&self, key: &str) -> Vec<String> {
        self.get(key).map_or(vec![], |v| v.split(',').filter(|s| !s.is_empty()).map(|s| s.to_string()).collect())
    }
}

pub fn verif_root() -> String {
    std::env::var("VERIF_ROOT").unwrap_or_else(|_| "/verif".to_string())
}

/// Characters a sloppy parser might take for `c`: code points congruent to it modulo 2^8 / 2^16 (byte / u16 truncation),
/// its full-width form, and every BMP character whose Unicode lower- or upper-case mapping is `c` in either case (U+212A KELVIN SIGN for k and K, ...).
pub fn lookalikes(c: char) -> Vec<char> {
    use std::sync::OnceLock;
    static FOLD: OnceLock<Vec<(char, char)>> = OnceLock::new();
    let fold = FOLD.get_or_init(|| {
        let mut v = vec![];
        for u in 0x80u32..=0xFFFF {
            if let Some(x) = char::from_u32(u) {
                let mut lo = x.to_lowercase();
                if let (Some(a), None) = (lo.next(), lo.next()) {
                    if a.is_ascii() {
                        v.push((a, x));
                    }
                }
                let mut up = x.to_uppercase();
                if let (Some(a), None) = (up.next(), up.next()) {
                    if a.is_ascii() {
                        v.push((a, x));
                    }
                }
            }
        }
        v
    });
    let mut out = vec![];
    for delta in [0x100u32, 0x200, 0xFF00, 0x10000, 0xFEE0] {
        if let Some(ch) = char::from_u32(c as u32 + delta) {
            out.push(ch);
        }
    }
    for &(a, x) in fold.iter() {
        if a.eq_ignore_ascii_case(&c) && !out.contains(&x) {
            out.push(x);
        }
    }
    out
}

pub fn read_lines(path: &str) -> Vec<String> {
    std::fs::read_to_string(path).map(|s| s.lines().filter(|l| !l.trim().is_empty() && !l.starts_with('#')).map(|l| l.to_string()).collect()).unwrap_or_default()
}
