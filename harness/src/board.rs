// Board driver: records histories (reset / play / null / clock setters) and observations
// of the real `Board` as ndjson events for the trace specification Trace_Board.tla.
// The recorder computes observations only; every verdict is taken by TLC.
use crate::util::*;
use cozy_chess::util::*;
use cozy_chess::*;
use std::collections::BTreeSet;

pub struct Roots {
    pub corpus: Vec<String>,
    pub curated: Vec<String>,   // hand-made roots followed by the TLC-synthesised ones
    pub hand: usize,            // how many of `curated` are hand-made
}

impl Roots {
    pub fn load() -> Self {
        let root = verif_root();
        let mut curated = read_lines(&format!("{}/roots/curated.sfen", root));
        let hand = curated.len();
        // behind the hand-made roots: the synthesised ones with the colour-flipped twins of the hand-made ones spread evenly among them
        let synth = read_lines(&format!("{}/roots/synth.sfen", root));
        let flipped = read_lines(&format!("{}/roots/curated_flipped.sfen", root));
        let every = if flipped.is_empty() { usize::MAX } else { (synth.len() / flipped.len()).max(1) };
        let mut fi = 0;
        for (i, t) in synth.into_iter().enumerate() {
            curated.push(t);
            if i % every == 0 && fi < flipped.len() {
                curated.push(flipped[fi].clone());
                fi += 1;
            }
        }
        curated.extend(flipped.into_iter().skip(fi));
        Roots { corpus: read_lines(&format!("{}/roots/valid.sfens", root)), curated, hand }
    }
}

pub fn is_promo_rank(s: Square) -> bool {
    matches!(s.rank(), Rank::First | Rank::Eighth)
}

/// A random builder state biased towards the interesting structure: kings near back ranks,
/// rights where a rook could back them, ep where a pawn could just have advanced, edge clocks.
pub fn random_builder(rng: &mut Rng) -> BoardBuilder {
    let mut bb = BoardBuilder::empty();
    let mut place_king = |rng: &mut Rng, bb: &mut BoardBuilder, color: Color| loop {
        let rank = if rng.chance(2, 3) { Rank::First.relative_to(color) } else { Rank::index(rng.below(8) as usize) };
        let sq = Square::new(File::index(rng.below(8) as usize), rank);
        if bb.square(sq).is_none() {
            *bb.square_mut(sq) = Some((Piece::King, color));
            break;
        }
    };
    place_king(rng, &mut bb, Color::White);
    place_king(rng, &mut bb, Color::Black);
    let dense = rng.chance(1, 6);
    for &color in &Color::ALL {
        let n = if dense { 10 + rng.below(6) } else { rng.below(8) };
        let mut pawns = 0;
        for _ in 0..n {
            let kind = match rng.below(10) {
                0..=3 => Piece::Pawn,
                4 | 5 => Piece::Rook,
                6 => Piece::Knight,
                7 => Piece::Bishop,
                _ => Piece::Queen,
            };
            if kind == Piece::Pawn && pawns == 8 {
                continue;
            }
            for _ in 0..8 {
                let mut sq = Square::index(rng.below(64) as usize);
                if kind == Piece::Rook && rng.chance(1, 2) {
                    sq = Square::new(sq.file(), Rank::First.relative_to(color));
                }
                if kind == Piece::Pawn && rng.chance(1, 3) {
                    // fourth rank: candidates for an ep file
                    sq = Square::new(sq.file(), Rank::Fourth.relative_to(color));
                }
                if kind == Piece::Pawn && is_promo_rank(sq) {
                    continue;
                }
                if bb.square(sq).is_none() {
                    *bb.square_mut(sq) = Some((kind, color));
                    if kind == Piece::Pawn {
                        pawns += 1;
                    }
                    break;
                }
            }
        }
    }
    bb.side_to_move = if rng.chance(1, 2) { Color::White } else { Color::Black };
    for &color in &Color::ALL {
        let br = Rank::First.relative_to(color);
        let king = Square::ALL.iter().copied().find(|&s| bb.square(s) == Some((Piece::King, color))).unwrap();
        if king.rank() != br {
            continue;
        }
        let mut short = None;
        let mut long = None;
        for &f in &File::ALL {
            if bb.square(Square::new(f, br)) == Some((Piece::Rook, color)) && rng.chance(3, 4) {
                if f > king.file() {
                    short = Some(f);
                } else if f < king.file() && long.is_none() {
                    long = Some(f);
                }
            }
        }
        *bb.castle_rights_mut(color) = CastleRights { short, long };
    }
    let them = !bb.side_to_move;
    let mut cands = vec![];
    for &f in &File::ALL {
        let p = Square::new(f, Rank::Fourth.relative_to(them));
        let passed = Square::new(f, Rank::Third.relative_to(them));
        let origin = Square::new(f, Rank::Second.relative_to(them));
        if bb.square(p) == Some((Piece::Pawn, them)) && bb.square(passed).is_none() && bb.square(origin).is_none() {
            cands.push(passed);
        }
    }
    if !cands.is_empty() && rng.chance(2, 3) {
        bb.en_passant = Some(*rng.pick(&cands));
    }
    bb.halfmove_clock = match rng.below(8) {
        0 => 99,
        1 => 100,
        2 => 98,
        3 | 4 => 0,
        _ => rng.below(100) as u8,
    };
    bb.fullmove_number = match rng.below(8) {
        0 => 65535,
        1 => 65534,
        2 | 3 => 1,
        _ => 1 + rng.below(300) as u16,
    };
    bb
}

pub fn builder_text(bb: &BoardBuilder) -> String {
    // compact description of a builder state for `reset.arg`
    let mut s = String::new();
    for &sq in &Square::ALL {
        if let Some((p, c)) = bb.square(sq) {
            let ch: char = p.into();
            s.push(if c == Color::White { ch.to_ascii_uppercase() } else { ch });
            s.push_str(&format!("{}", sq));
        }
    }
    s
}

pub struct Cfg {
    pub gen_play_none: bool,
    pub gen_play_all: bool,
    pub gen_play_pawns: bool,
    pub starts_only: bool,
    pub obs: BTreeSet<String>,
    pub plies: u64,
    pub heavy_every: u64,
}

pub struct Driver<'a> {
    pub out: &'a mut Shards,
    pub rng: Rng,
    pub cfg: Cfg,
    pub roots: &'a Roots,
    pub all_moves: Vec<Move>,
    pub states: u64,
}

impl<'a> Driver<'a> {
    fn on(&self, o: &str) -> bool {
        self.cfg.obs.contains(o)
    }

    pub fn pick_root(&mut self) -> Option<(String, String, Board)> {
        let mut r = self.rng.below(100);
        if self.cfg.starts_only {
            r = 37 + r % 23;
        } else if self.rng.chance(1, 10) {
            // single-defect states below an accepted board (each violates one clause of the soundness statement, so the
            // unchanged library refuses them all); a weakened validator lets some through, and every observation made on
            // such a board is then judged against the rules
            if let Some(b) = crate::cand::accepted_board(&mut self.rng, self.roots) {
                let base = BoardBuilder::from_board(&b);
                let mut v = vec![];
                crate::cand::targeted(&mut self.rng, &base, &mut v);
                for (name, bb) in v {
                    if let Some(Ok(x)) = guard(|| bb.build()) {
                        return Some((format!("builder-{}", name), builder_text(&bb), x));
                    }
                }
            }
        }
        if r < 22 && !self.roots.corpus.is_empty() {
            let t = self.rng.pick(&self.roots.corpus).clone();
            let b = guard(|| Board::from_fen(&t, true)).and_then(|r| r.ok())?;
            Some(("sfen".into(), t, b))
        } else if r < 37 && !self.roots.curated.is_empty() {
            let t = self.rng.pick(&self.roots.curated).clone();
            let b = guard(|| Board::from_fen(&t, true)).and_then(|r| r.ok())?;
            Some(("sfen".into(), t, b))
        } else if r < 47 {
            let n = self.rng.below(960) as u32;
            let b = guard(|| Board::chess960_startpos(n))?;
            Some(("start960".into(), n.to_string(), b))
        } else if r < 60 {
            let w = self.rng.below(960) as u32;
            let k = self.rng.below(960) as u32;
            let b = guard(|| Board::double_chess960_startpos(w, k))?;
            Some(("dfrc".into(), format!("{},{}", w, k), b))
        } else {
            for _ in 0..200 {
                let mut bb = random_builder(&mut self.rng);
                // sometimes one more random change (a right on any file, the king off its back rank, an ep square anywhere,
                // a piece added / moved / recoloured): a validator that lets an unsound state through is then seen by
                // every observation made on the resulting board
                if self.rng.chance(1, 3) {
                    crate::cand::mutate(&mut self.rng, &mut bb);
                }
                if let Some(Ok(b)) = guard(|| bb.build()) {
                    return Some(("builder".into(), builder_text(&bb), b));
                }
            }
            None
        }
    }

    pub fn emit_reset(&mut self, src: &str, arg: &str, b: &Board) {
        self.out.next_history();
        self.out.emit("reset", &format!("\"src\":{},\"arg\":{},\"st\":{}", jstr(src), jstr(arg), proj(b)));
    }

    fn batches(bt: &[PieceMoves]) -> String {
        let v: Vec<String> = bt.iter().map(|pm| format!("[{},{},{}]", pm.piece as u8 + 1, pm.from as u8, jbb(pm.to))).collect();
        format!("[{}]", v.join(","))
    }

    pub fn observe(&mut self, b: &Board, prev: Option<&Board>) {
        self.states += 1;
        match b.checkers().len() {
            0 => self.out.class("state-no-check"),
            1 => self.out.class("state-single-check"),
            _ => self.out.class("state-multiple-check"),
        }
        if b.en_passant().is_some() {
            self.out.class("state-ep-file-set");
        }
        if !(b.pinned() & b.colors(b.side_to_move())).is_empty() {
            self.out.class("state-own-piece-pinned");
        }
        if !(b.pinned() & b.colors(!b.side_to_move())).is_empty() {
            self.out.class("state-enemy-piece-in-pinned-set");
        }
        let r = b.castle_rights(b.side_to_move());
        if r.short.is_some() || r.long.is_some() {
            self.out.class("state-mover-has-castling-right");
        }
        let heavy = self.cfg.heavy_every <= 1 || self.states % self.cfg.heavy_every == 0;
        if self.on("acc") {
            self.obs_acc(b);
        }
        if self.on("gen") {
            let mut bt = vec![];
            let r = guard(|| {
                b.generate_moves(|pm| {
                    bt.push(pm);
                    false
                })
            });
            self.out.emit("gen", &format!("\"panic\":{},\"ret\":{},\"bt\":{}", r.is_none(), r.unwrap_or(false), Self::batches(&bt)));
        }
        if self.on("genfor") {
            self.obs_genfor(b);
        }
        if self.on("abort") {
            self.obs_abort(b);
        }
        if self.on("islegal") && heavy {
            let mut t = vec![];
            let mut p = vec![];
            for &m in &self.all_moves {
                match guard(|| b.is_legal(m)) {
                    Some(true) => t.push(m),
                    Some(false) => {}
                    None => p.push(m),
                }
            }
            self.out.emit("islegal", &format!("\"t\":{},\"panics\":{}", jmoves(&t), jmoves(&p)));
        }
        if self.on("tryplay") && heavy {
            self.obs_tryplay(b);
        }
        if self.on("status") {
            let s = guard(|| b.status());
            let s = match s {
                Some(GameStatus::Won) => "won",
                Some(GameStatus::Drawn) => "drawn",
                Some(GameStatus::Ongoing) => "ongoing",
                None => "panic",
            };
            self.out.emit("status", &format!("\"s\":\"{}\"", s));
        }
        if self.on("text") {
            self.obs_text(b);
            self.obs_near(b);
        }
        if self.on("rebuild") {
            let r = guard(|| BoardBuilder::from_board(b).build());
            let (k, eq, st) = match &r {
                Some(Ok(x)) => ("ok", x == b, proj(x)),
                Some(Err(_)) => ("err", false, proj_none()),
                None => ("panic", false, proj_none()),
            };
            // the builder image itself (from_board): must be the board's state, field by field
            let fb = guard(|| crate::cand::bs_json(&BoardBuilder::from_board(b))).unwrap_or_else(|| "{\"b\":[],\"stm\":0,\"cr\":[-1,-1,-1,-1],\"epsq\":-1,\"hmc\":0,\"fmn\":0}".to_string());
            self.out.emit("rebuild", &format!("\"k\":\"{}\",\"eq\":{},\"fb\":{},\"st\":{}", k, eq, fb, st));
        }
        if self.on("fresh") {
            self.obs_fresh(b);
        }
        if self.on("same") {
            self.obs_same(b, prev);
        }
        if self.on("san") && heavy {
            self.obs_san(b);
        }
        if self.on("sanread") && heavy {
            self.obs_sanread(b);
        }
    }

    fn obs_acc(&mut self, b: &Board) {
        let pieces: Vec<String> = Piece::ALL.iter().map(|&p| jbb(b.pieces(p))).collect();
        let colors: Vec<String> = Color::ALL.iter().map(|&c| jbb(b.colors(c))).collect();
        let mut cp = vec![];
        for &c in &Color::ALL {
            for &p in &Piece::ALL {
                cp.push(jbb(b.colored_pieces(c, p)));
            }
        }
        let kings: Vec<String> = Color::ALL.iter().map(|&c| guard(|| b.king(c)).map_or(-1, |s| s as i32).to_string()).collect();
        self.out.emit(
            "acc",
            &format!("\"pieces\":[{}],\"colors\":[{}],\"cp\":[{}],\"occ\":{},\"kings\":[{}]", pieces.join(","), colors.join(","), cp.join(","), jbb(b.occupied()), kings.join(",")),
        );
    }

    fn masks(&mut self, b: &Board) -> Vec<BitBoard> {
        let own = b.colors(b.side_to_move());
        let mut v = vec![BitBoard::EMPTY, BitBoard::FULL, own, !own];
        for &p in &Piece::ALL {
            v.push(b.pieces(p));
        }
        let owns: Vec<Square> = own.iter().collect();
        for _ in 0..4 {
            v.push(self.rng.pick(&owns).bitboard());
        }
        v.push(b.king(b.side_to_move()).bitboard());
        v.push(!b.king(b.side_to_move()).bitboard());
        let r = BitBoard(self.rng.next());
        v.push(r);
        v.push(!r);
        v.push(BitBoard(self.rng.next() & self.rng.next()));
        v.push(b.pinned());
        v.push(Square::index(self.rng.below(64) as usize).bitboard());
        if let Some(f) = b.en_passant() {
            // the squares from which an ep capture could start
            v.push(f.adjacent() & Rank::Fifth.relative_to(b.side_to_move()).bitboard());
        }
        v
    }

    fn obs_genfor(&mut self, b: &Board) {
        for mask in self.masks(b) {
            let mut bt = vec![];
            let r = guard(|| {
                b.generate_moves_for(mask, |pm| {
                    bt.push(pm);
                    false
                })
            });
            self.out.emit("genfor", &format!("\"mask\":{},\"panic\":{},\"ret\":{},\"bt\":{}", jbb(mask), r.is_none(), r.unwrap_or(false), Self::batches(&bt)));
        }
    }

    fn obs_abort(&mut self, b: &Board) {
        let r = BitBoard(self.rng.next() | self.rng.next());
        for mask in [BitBoard::FULL, r] {
            let mut total = 0u64;
            let _ = guard(|| {
                b.generate_moves_for(mask, |_| {
                    total += 1;
                    false
                })
            });
            let mut items = vec![];
            for j in 0..total {
                let mut calls = 0u64;
                let r = guard(|| {
                    b.generate_moves_for(mask, |_| {
                        calls += 1;
                        calls == j + 1
                    })
                });
                items.push(format!("[{},{},{}]", j, calls, match r { Some(true) => 1, Some(false) => 0, None => 2 }));
            }
            self.out.emit("abort", &format!("\"mask\":{},\"total\":{},\"runs\":[{}]", jbb(mask), total, items.join(",")));
        }
    }

    fn obs_tryplay(&mut self, b: &Board) {
        let mut ok = vec![];
        let mut bad_err = vec![];
        let mut bad_ok = vec![];
        let mut panics = vec![];
        let before_s = format!("{:#}", b);
        for &m in &self.all_moves {
            let mut c = b.clone();
            match guard(|| c.try_play(m)) {
                Some(Ok(())) => {
                    ok.push(m);
                    let mut d = b.clone();
                    if guard(|| d.play_unchecked(m)).is_none() || d != c {
                        bad_ok.push(m);
                    }
                }
                Some(Err(_)) => {
                    // == covers placement, rights, ep, hash, checkers, pins and clocks; the text is compared on a sample
                    if c != *b || c.hash() != b.hash() || c.checkers() != b.checkers() || c.pinned() != b.pinned()
                        || ((m.from as usize * 64 + m.to as usize) % 97 == 0 && format!("{:#}", c) != before_s)
                    {
                        bad_err.push(m);
                    }
                }
                None => panics.push(m),
            }
        }
        // the panicking variant: all moves try_play accepted plus a sample of the others
        let mut tried = ok.clone();
        for _ in 0..150 {
            let m = *self.rng.pick(&self.all_moves);
            if !tried.contains(&m) {
                tried.push(m);
            }
        }
        // near misses: same origin/destination as a legal move, other promotion code
        for &m in ok.iter().take(40) {
            for p in 0..7u8 {
                let n = Move { promotion: piece_of(p), ..m };
                if !tried.contains(&n) {
                    tried.push(n);
                }
            }
        }
        let mut panicked = vec![];
        let mut bad_play = vec![];
        for &m in &tried {
            let mut c = b.clone();
            if guard(|| c.play(m)).is_none() {
                panicked.push(m);
            } else {
                let mut d = b.clone();
                if guard(|| d.play_unchecked(m)).is_none() || d != c {
                    bad_play.push(m);
                }
            }
        }
        // the lists of offending moves only have to be non-empty to count; a fault that touches every move must not flood the log
        bad_err.truncate(40);
        bad_ok.truncate(40);
        panics.truncate(40);
        bad_play.truncate(40);
        self.out.emit(
            "tryplay",
            &format!(
                "\"ok\":{},\"bad_err\":{},\"bad_ok\":{},\"panics\":{},\"tried\":{},\"panicked\":{},\"bad_play\":{}",
                jmoves(&ok), jmoves(&bad_err), jmoves(&bad_ok), jmoves(&panics), jmoves(&tried), jmoves(&panicked), jmoves(&bad_play)
            ),
        );
    }

    fn reparse(b: &Board, text: &str, mode: u8) -> String {
        let r = guard(|| match mode {
            0 => Board::from_fen(text, false),
            1 => Board::from_fen(text, true),
            _ => text.parse::<Board>(),
        });
        match r {
            Some(Ok(x)) => {
                let again = if mode == 0 { format!("{}", x) } else if mode == 1 { format!("{:#}", x) } else { String::new() };
                format!("{{\"k\":\"ok\",\"eq\":{},\"again\":{},\"st\":{}}}", x == *b, jstr(&again), proj(&x))
            }
            Some(Err(e)) => format!("{{\"k\":\"err\",\"eq\":false,\"again\":{},\"st\":{}}}", jstr(&format!("{:?}", e)), proj_none()),
            None => format!("{{\"k\":\"panic\",\"eq\":false,\"again\":\"\",\"st\":{}}}", proj_none()),
        }
    }

    fn obs_text(&mut self, b: &Board) {
        let sfen = format!("{:#}", b);
        let fen = format!("{}", b);
        self.out.emit(
            "text",
            &format!(
                "\"sfen\":{},\"fen\":{},\"rs\":{},\"rf\":{},\"ps\":{},\"pf\":{}",
                jstr(&sfen), jstr(&fen), Self::reparse(b, &sfen, 1), Self::reparse(b, &fen, 0), Self::reparse(b, &sfen, 2), Self::reparse(b, &fen, 2)
            ),
        );
    }

    // boards one step away from b (one clock, one right, the ep file, one piece): equal exactly when nothing differs
    fn obs_near(&mut self, b: &Board) {
        let mut near: Vec<Board> = vec![b.clone()];
        let mut c = b.clone();
        let f = b.fullmove_number();
        if guard(|| c.set_fullmove_number(if f < 65535 { f + 1 } else { f - 1 })).is_some() {
            near.push(c);
        }
        let mut c = b.clone();
        let h = b.halfmove_clock();
        if guard(|| c.set_halfmove_clock(if h < 100 { h + 1 } else { h - 1 })).is_some() {
            near.push(c);
        }
        let base = BoardBuilder::from_board(b);
        let mut push = |bb: BoardBuilder| {
            if let Some(Ok(x)) = guard(|| bb.build()) {
                near.push(x);
            }
        };
        for &col in &Color::ALL {
            let r = *base.castle_rights(col);
            if r.short.is_some() {
                let mut t = base.clone();
                t.castle_rights_mut(col).short = None;
                push(t);
            }
            if r.long.is_some() {
                let mut t = base.clone();
                t.castle_rights_mut(col).long = None;
                push(t);
            }
        }
        if base.en_passant.is_some() {
            let mut t = base.clone();
            t.en_passant = None;
            push(t);
        }
        let others: Vec<Square> = Square::ALL.iter().copied().filter(|&s| matches!(base.square(s), Some((p, _)) if p != Piece::King)).collect();
        if !others.is_empty() {
            let s = *self.rng.pick(&others);
            let mut t = base.clone();
            *t.square_mut(s) = None;
            push(t);
        }
        for x in near {
            let eq = guard(|| *b == x && x == *b);
            self.out.emit("pair", &format!("\"a\":{},\"o\":{},\"eq\":{}", proj(b), proj(&x), eq.unwrap_or(false)));
        }
    }

    fn obs_fresh(&mut self, b: &Board) {
        // hashes of boards built from the same position by other routes, with other clocks, without ep
        let mut items = vec![];
        let mut push = |route: &str, x: Option<Board>| {
            if let Some(x) = x {
                items.push(format!("{{\"r\":\"{}\",\"st\":{}}}", route, proj(&x)));
            }
        };
        let sfen = format!("{:#}", b);
        push("sfen", guard(|| Board::from_fen(&sfen, true).ok()).flatten());
        let mut bb = BoardBuilder::from_board(b);
        bb.halfmove_clock = self.rng.below(101) as u8;
        bb.fullmove_number = 1 + self.rng.below(65535) as u16;
        push("builder-clocks", guard(|| bb.build().ok()).flatten());
        let mut bb2 = BoardBuilder::from_board(b);
        bb2.en_passant = None;
        push("builder-noep", guard(|| bb2.build().ok()).flatten());
        // text route with other clocks
        let parts: Vec<&str> = sfen.split(' ').collect();
        if parts.len() == 6 {
            let t = format!("{} {} {} {} {} {}", parts[0], parts[1], parts[2], parts[3], self.rng.below(101), 1 + self.rng.below(65535));
            push("sfen-clocks", guard(|| Board::from_fen(&t, true).ok()).flatten());
            let t = format!("{} {} {} - {} {}", parts[0], parts[1], parts[2], parts[4], parts[5]);
            push("sfen-noep", guard(|| Board::from_fen(&t, true).ok()).flatten());
        }
        let mut c = b.clone();
        if guard(|| {
            c.set_halfmove_clock(7);
            c.set_fullmove_number(77)
        })
        .is_some()
        {
            push("setters", Some(c));
        }
        self.out.emit("fresh", &format!("\"hs\":[{}]", items.join(",")));
    }

    fn obs_same(&mut self, b: &Board, prev: Option<&Board>) {
        let mut partners: Vec<Board> = vec![b.clone()];
        if let Some(p) = prev {
            partners.push(p.clone());
        }
        let mut bb = BoardBuilder::from_board(b);
        bb.halfmove_clock = self.rng.below(101) as u8;
        bb.fullmove_number = 1 + self.rng.below(500) as u16;
        if let Some(Ok(x)) = guard(|| bb.build()) {
            partners.push(x);
        }
        let mut bb = BoardBuilder::from_board(b);
        bb.en_passant = None;
        if let Some(Ok(x)) = guard(|| bb.build()) {
            partners.push(x);
        }
        for f in File::ALL {
            let mut bb = BoardBuilder::from_board(b);
            bb.en_passant = Some(Square::new(f, Rank::Third.relative_to(!b.side_to_move())));
            if let Some(Ok(x)) = guard(|| bb.build()) {
                partners.push(x);
            }
        }
        // a right dropped, side flipped: different positions
        // rights dropped in every pattern (one right, one wing of both colours, one colour, all): different positions
        for pat in 1..16u8 {
            let mut bb = BoardBuilder::from_board(b);
            if pat & 1 != 0 {
                bb.castle_rights_mut(Color::White).short = None;
            }
            if pat & 2 != 0 {
                bb.castle_rights_mut(Color::White).long = None;
            }
            if pat & 4 != 0 {
                bb.castle_rights_mut(Color::Black).short = None;
            }
            if pat & 8 != 0 {
                bb.castle_rights_mut(Color::Black).long = None;
            }
            if bb.castle_rights != BoardBuilder::from_board(b).castle_rights && (pat == 15 || pat == 5 || pat == 10 || pat == 3 || pat == 12 || self.rng.chance(1, 4)) {
                if let Some(Ok(x)) = guard(|| bb.build()) {
                    partners.push(x);
                }
            }
        }
        let mut bb = BoardBuilder::from_board(b);
        bb.side_to_move = !bb.side_to_move;
        bb.en_passant = None;
        if let Some(Ok(x)) = guard(|| bb.build()) {
            partners.push(x);
        }
        let mut pairs: Vec<(Board, Board)> = partners.into_iter().map(|p| (b.clone(), p)).collect();
        // non-pawn standing where a capturing pawn would stand
        if let Some(ef) = b.en_passant() {
            let r5 = Rank::Fifth.relative_to(b.side_to_move());
            for df in [-1i8, 1] {
                if let Some(s) = Square::new(ef, r5).try_offset(df, 0) {
                    for p in [Piece::Bishop, Piece::Queen, Piece::Knight, Piece::Rook, Piece::Pawn] {
                        let mut bb = BoardBuilder::from_board(b);
                        if bb.square(s).map_or(true, |(pc, _)| pc != Piece::King) {
                            *bb.square_mut(s) = Some((p, b.side_to_move()));
                            if let Some(Ok(x)) = guard(|| bb.build()) {
                                let mut bb2 = BoardBuilder::from_board(&x);
                                bb2.en_passant = None;
                                if let Some(Ok(y)) = guard(|| bb2.build()) {
                                    pairs.push((x, y));
                                }
                            }
                        }
                    }
                }
            }
        }
        for (x, y) in pairs {
            let ab = guard(|| x.same_position(&y));
            let ba = guard(|| y.same_position(&x));
            let t = |v: Option<bool>| match v {
                Some(true) => 1,
                Some(false) => 0,
                None => 2,
            };
            self.out.emit("same", &format!("\"a\":{},\"o\":{},\"ab\":{},\"ba\":{}", proj(&x), proj(&y), t(ab), t(ba)));
        }
    }

    fn mres(r: Option<Result<Move, MoveParseError>>) -> String {
        match r {
            Some(Ok(m)) => format!("{{\"k\":\"ok\",\"m\":{}}}", jmove(m)),
            Some(Err(_)) => "{\"k\":\"err\",\"m\":[0,0,0]}".to_string(),
            None => "{\"k\":\"panic\",\"m\":[0,0,0]}".to_string(),
        }
    }

    fn obs_san(&mut self, b: &Board) {
        let mut items = vec![];
        for m in legal_moves(b) {
            let san = guard(|| format!("{}", display_san_move(b, m)));
            let uci = guard(|| format!("{}", display_uci_move(b, m)));
            let (sk, san) = match san {
                Some(s) => ("ok", s),
                None => ("panic", String::new()),
            };
            let (uk, uci) = match uci {
                Some(s) => ("ok", s),
                None => ("panic", String::new()),
            };
            let ps = Self::mres(guard(|| parse_san_move(b, &san)));
            let pu = Self::mres(guard(|| parse_uci_move(b, &uci)));
            let plain = format!("{}", m);
            let pp = Self::mres(guard(|| parse_uci_move(b, &plain)));
            items.push(format!(
                "{{\"m\":{},\"sk\":\"{}\",\"san\":{},\"uk\":\"{}\",\"uci\":{},\"ps\":{},\"pu\":{},\"plain\":{},\"pp\":{}}}",
                jmove(m), sk, jstr(&san), uk, jstr(&uci), ps, pu, jstr(&plain), pp
            ));
        }
        self.out.emit("san", &format!("\"mv\":[{}]", items.join(",")));
    }

    fn obs_sanread(&mut self, b: &Board) {
        let mv = legal_moves(b);
        let mut texts: Vec<String> = vec![];
        let al: Vec<char> = "abcdefgh12345678NBRQKPx=+#O-nq".chars().collect();
        let n = mv.len();
        for i in 0..n.min(14) {
            let m = mv[(i * 7 + self.rng.below(n as u64) as usize) % n];
            let san = match guard(|| format!("{}", display_san_move(b, m))) {
                Some(s) => s,
                None => continue,
            };
            let cs: Vec<char> = san.chars().collect();
            for _ in 0..4 {
                let mut c = cs.clone();
                let pos = self.rng.below(c.len() as u64 + 1) as usize;
                let ch = *self.rng.pick(&al);
                match self.rng.below(3) {
                    0 if pos < c.len() => {
                        c.remove(pos);
                    }
                    1 => c.insert(pos, ch),
                    _ if pos < c.len() => c[pos] = ch,
                    _ => {}
                }
                texts.push(c.iter().collect());
            }
            let pc = b.piece_on(m.from).unwrap();
            let l = if pc == Piece::Pawn { String::new() } else { char::from(pc).to_ascii_uppercase().to_string() };
            let pr = m.promotion.map_or(String::new(), |p| format!("={}", char::from(p).to_ascii_uppercase()));
            let pr2 = m.promotion.map_or(String::new(), |p| format!("{}", char::from(p).to_ascii_uppercase()));
            if !b.colors(b.side_to_move()).has(m.to) {
                texts.push(format!("{}{}{}{}", l, m.from, m.to, pr));
                texts.push(format!("{}{}x{}{}", l, m.from.file(), m.to, pr));
                texts.push(format!("{}{}{}{}", l, m.from.rank(), m.to, pr));
                texts.push(format!("{}{}{}", l, m.to, pr));
                texts.push(format!("{}x{}{}", l, m.to, pr2));
                texts.push(format!("P{}{}{}", m.from.file(), m.to, pr));
            } else {
                texts.push("O-O".into());
                texts.push("O-O-O".into());
                texts.push("O-O+".into());
                texts.push("0-0".into());
                texts.push(format!("K{}", m.to));
            }
        }
        texts.push(String::new());
        texts.push("e4".into());
        texts.push("O-O".into());
        texts.push("O-O-O#".into());
        texts.push("Nf3".into());
        let items: Vec<String> = texts
            .iter()
            .map(|t| {
                let r = guard(|| parse_san_move(b, t));
                let (k, m) = match r {
                    Some(Ok(m)) => ("ok", jmove(m)),
                    Some(Err(_)) => ("err", "[0,0,0]".to_string()),
                    None => ("panic", "[0,0,0]".to_string()),
                };
                format!("{{\"t\":{},\"cp\":{},\"k\":\"{}\",\"m\":{}}}", jstr(t), jcps(t), k, m)
            })
            .collect();
        self.out.emit("sanread", &format!("\"q\":[{}]", items.join(",")));
    }

    fn weight(b: &Board, m: Move, race: bool) -> u64 {
        let us = b.side_to_move();
        if b.colors(us).has(m.to) {
            return 12; // castle
        }
        let mut w = 2;
        if race {
            // a promotion race: pawns run and take, everything else mostly waits; promotions (every kind) are taken when offered
            if m.promotion.is_some() {
                return 400;
            }
            if b.piece_on(m.from) == Some(Piece::Pawn) {
                let adv = m.to.rank().relative_to(us) as u64;
                return 10 + 6 * adv + if m.from.file() != m.to.file() { 25 } else { 0 };
            }
            return if b.colors(!us).has(m.to) { 3 } else { 1 };
        }
        if b.colors(!us).has(m.to) {
            w += 4;
        }
        if m.promotion.is_some() {
            w += 3;
        }
        if b.piece_on(m.from) == Some(Piece::Pawn) {
            if m.from.file() != m.to.file() && !b.occupied().has(m.to) {
                w += 14; // ep
            }
            if (m.from.rank() as i8 - m.to.rank() as i8).abs() == 2 {
                w += 3;
            }
        }
        if b.piece_on(m.from) == Some(Piece::Rook) || b.piece_on(m.from) == Some(Piece::King) {
            w += 1;
        }
        w
    }

    pub fn play_event(&mut self, b: &mut Board, m: Move, api: u64) -> bool {
        let before = b.clone();
        let (name, res) = match api % 3 {
            0 => ("play", guard(|| b.play(m)).map(|_| true)),
            1 => ("unchecked", guard(|| b.play_unchecked(m)).map(|_| true)),
            _ => ("try", guard(|| b.try_play(m).is_ok())),
        };
        let res_s = match res {
            Some(true) => "ok",
            Some(false) => "err",
            None => "panic",
        };
        if res != Some(true) {
            *b = before;
            self.out.class(if res.is_none() { "move-refused-by-panic" } else { "move-refused-by-error" });
        } else {
            // transition classes for the evidence file (coverage accounting, not a verdict)
            let us = before.side_to_move();
            let castle = before.colors(us).has(m.to);
            let pawn = before.piece_on(m.from) == Some(Piece::Pawn);
            let ep = pawn && m.from.file() != m.to.file() && !before.occupied().has(m.to);
            let capture = !castle && (before.colors(!us).has(m.to) || ep);
            let mut cls: Vec<&str> = vec![];
            if castle {
                let short = m.from.file() < m.to.file();
                cls.push(if short { "castle-short" } else { "castle-long" });
                if m.from.file() != File::E || !(m.to.file() == File::A || m.to.file() == File::H) {
                    cls.push("castle-960-geometry");
                }
                if m.from.file() == (if short { File::G } else { File::C }) {
                    cls.push("castle-king-stays");
                }
                if m.to.file() == (if short { File::F } else { File::D }) {
                    cls.push("castle-rook-stays");
                }
            } else if ep {
                cls.push("ep-capture");
            } else if capture {
                cls.push("capture");
            } else {
                cls.push("quiet");
            }
            if m.promotion.is_some() {
                cls.push(if capture { "promotion-capture" } else { "promotion" });
            }
            if b.en_passant().is_some() {
                cls.push("double-push");
            }
            for &c in &Color::ALL {
                let (x, y) = (before.castle_rights(c), b.castle_rights(c));
                if (x.short != y.short || x.long != y.long) && !castle {
                    cls.push(if c == us { if before.piece_on(m.from) == Some(Piece::King) { "rights-lost-king-move" } else { "rights-lost-rook-move" } } else { "rights-lost-capture" });
                }
            }
            if before.halfmove_clock() == 100 && b.halfmove_clock() == 100 {
                cls.push("halfmove-saturated");
            }
            if before.fullmove_number() == 65535 && us == Color::Black {
                cls.push("fullmove-saturated");
            }
            match b.checkers().len() {
                0 => {}
                1 => cls.push("gives-check"),
                _ => cls.push("gives-double-check"),
            }
            if !before.checkers().is_empty() {
                cls.push("evades-check");
            }
            if !(before.pinned() & before.colors(us)).is_empty() && before.pinned().has(m.from) {
                cls.push("pinned-piece-moves");
            }
            if us == Color::Black {
                cls.push("black-moves");
            }
            for c in cls {
                self.out.class(c);
            }
        }
        self.out.emit("play", &format!("\"api\":\"{}\",\"m\":{},\"res\":\"{}\",\"st\":{}", name, jmove(m), res_s, proj(b)));
        res == Some(true)
    }

    pub fn null_event(&mut self, b: &mut Board) -> bool {
        match guard(|| b.null_move()) {
            Some(Some(n)) => {
                *b = n;
                // the same position constructed afresh (builder route): hash and equality
                let fresh = guard(|| BoardBuilder::from_board(b).build().ok()).flatten();
                let (fh, feq) = match &fresh {
                    Some(x) => (format!("{:016x}", x.hash()), x == b),
                    None => ("none".to_string(), false),
                };
                self.out.emit("null", &format!("\"res\":\"some\",\"fh\":\"{}\",\"feq\":{},\"st\":{}", fh, feq, proj(b)));
                true
            }
            Some(None) => {
                self.out.emit("null", &format!("\"res\":\"none\",\"fh\":\"\",\"feq\":false,\"st\":{}", proj(b)));
                false
            }
            None => {
                self.out.emit("null", &format!("\"res\":\"panic\",\"fh\":\"\",\"feq\":false,\"st\":{}", proj(b)));
                false
            }
        }
    }

    pub fn walk(&mut self) {
        let (src, arg, mut b) = match self.pick_root() {
            Some(x) => x,
            None => return,
        };
        self.emit_reset(&src, &arg, &b);
        let mut prev: Option<Board> = None;
        let plies = 1 + self.rng.below(self.cfg.plies);
        let race = self.rng.chance(1, 4);
        for ply in 0..=plies {
            self.observe(&b, prev.as_ref());
            if ply == plies {
                break;
            }
            prev = Some(b.clone());
            let r = self.rng.below(100);
            if r < 9 {
                self.null_event(&mut b);
                continue;
            }
            if r < 13 {
                let n = *self.rng.pick(&[0u8, 1, 50, 98, 99, 100, 100, 101, 200, 255]);
                let ok = guard(|| b.set_halfmove_clock(n)).is_some();
                if !ok {
                    b = prev.clone().unwrap();
                }
                self.out.emit("sethmc", &format!("\"n\":{},\"res\":\"{}\",\"st\":{}", n, if ok { "ok" } else { "panic" }, proj(&b)));
                continue;
            }
            if r < 16 {
                let n = *self.rng.pick(&[0u16, 1, 2, 65534, 65535, 65535, 300]);
                let ok = guard(|| b.set_fullmove_number(n)).is_some();
                if !ok {
                    b = prev.clone().unwrap();
                }
                self.out.emit("setfmn", &format!("\"n\":{},\"res\":\"{}\",\"st\":{}", n, if ok { "ok" } else { "panic" }, proj(&b)));
                continue;
            }
            let mv = legal_moves(&b);
            if r < 19 {
                // an arbitrary (usually illegal) move through the checked API: the board must not move
                let m = if mv.is_empty() || self.rng.chance(1, 2) { *self.rng.pick(&self.all_moves) } else { Move { promotion: piece_of(self.rng.below(7) as u8), ..*self.rng.pick(&mv) } };
                let api = if self.rng.chance(1, 2) { 0 } else { 2 };
                self.play_event(&mut b, m, api);
                continue;
            }
            if mv.is_empty() {
                break;
            }
            let total: u64 = mv.iter().map(|&m| Self::weight(&b, m, race)).sum();
            let mut x = self.rng.below(total);
            let mut chosen = mv[0];
            for &m in &mv {
                let w = Self::weight(&b, m, race);
                if x < w {
                    chosen = m;
                    break;
                }
                x -= w;
            }
            let api = self.rng.below(3);
            if !self.play_event(&mut b, chosen, api) {
                break;
            }
        }
    }

    /// Every legal move below a root (depth 1), and for `deep` roots every reply as well.
    pub fn subtree(&mut self, text: &str, deep: bool) {
        let b = match guard(|| Board::from_fen(text, true)).and_then(|r| r.ok()) {
            Some(b) => b,
            None => return,
        };
        self.emit_reset("sfen", text, &b);
        self.observe(&b, None);
        // the null move from the root itself (refused when in check), with everything observed afterwards
        {
            let mut d = b.clone();
            if self.null_event(&mut d) {
                self.observe(&d, Some(&b));
            }
        }
        let mut api = 0;
        for m in legal_moves(&b) {
            let mut c = b.clone();
            self.emit_reset("sfen", text, &b);
            api += 1;
            if !self.play_event(&mut c, m, api) {
                continue;
            }
            self.observe(&c, Some(&b));
            if c.checkers().is_empty() {
                let mut d = c.clone();
                if self.null_event(&mut d) {
                    self.observe(&d, Some(&c));
                }
            }
            if deep {
                for m2 in legal_moves(&c) {
                    let mut d = b.clone();
                    self.emit_reset("sfen", text, &b);
                    api += 1;
                    if self.play_event(&mut d, m, api) && self.play_event(&mut d, m2, api + 1) {
                        self.observe(&d, Some(&c));
                    }
                }
            }
        }
    }

    /// A TLC-generated record (Mode C): observe the position, then every king move (castling included) and its result.
    pub fn generated(&mut self, text: &str) {
        let b = match guard(|| Board::from_fen(text, true)) {
            Some(Ok(b)) => b,
            Some(Err(e)) => {
                // the specification calls the position sound; the library refusing it is logged, not hidden
                self.out.next_history();
                self.out.emit("refused", &format!("\"arg\":{},\"cp\":{},\"err\":\"{:?}\"", jstr(text), jcps(text), e));
                return;
            }
            None => {
                self.out.next_history();
                self.out.emit("refused", &format!("\"arg\":{},\"cp\":{},\"err\":\"panic\"", jstr(text), jcps(text)));
                return;
            }
        };
        self.emit_reset("generated", text, &b);
        self.observe(&b, None);
        let king = b.king(b.side_to_move());
        let mut api = 0;
        for m in legal_moves(&b) {
            let wanted = !self.cfg.gen_play_none && (self.cfg.gen_play_all || m.from == king || (self.cfg.gen_play_pawns && b.piece_on(m.from) == Some(Piece::Pawn)));
            if !wanted {
                continue;
            }
            let mut c = b.clone();
            self.emit_reset("generated", text, &b);
            api += 1;
            if self.play_event(&mut c, m, api) {
                self.observe(&c, Some(&b));
            }
        }
    }

    /// Two orders of the same two non-interfering moves (and the same with null moves between):
    /// the boards must be equal, and the whole-trace hash relation sees both routes.
    pub fn transpositions(&mut self) {
        let (src, arg, b) = match self.pick_root() {
            Some(x) => x,
            None => return,
        };
        let mv = legal_moves(&b);
        if mv.len() < 2 {
            return;
        }
        for _ in 0..6 {
            let m1 = *self.rng.pick(&mv);
            let mut c = b.clone();
            c.play_unchecked(m1);
            let r1 = legal_moves(&c);
            if r1.is_empty() {
                continue;
            }
            let n1 = *self.rng.pick(&r1);
            let mut d = c.clone();
            d.play_unchecked(n1);
            let r2 = legal_moves(&d);
            if r2.is_empty() {
                continue;
            }
            let m2 = *self.rng.pick(&r2);
            if !mv.contains(&m2) || m2.from == m1.from {
                continue;
            }
            let mut e = d.clone();
            e.play_unchecked(m2);
            // other order: m2, n1, m1
            let mut x = b.clone();
            if !x.is_legal(m2) {
                continue;
            }
            x.play_unchecked(m2);
            if !x.is_legal(n1) {
                continue;
            }
            x.play_unchecked(n1);
            if !x.is_legal(m1) {
                continue;
            }
            // record both routes in one history group
            self.emit_reset(&src, &arg, &b);
            let mut y = b.clone();
            self.play_event(&mut y, m1, 1);
            self.play_event(&mut y, n1, 0);
            self.play_event(&mut y, m2, 2);
            self.observe(&y, None);
            let first = y.clone();
            self.out.emit("reset", &format!("\"src\":{},\"arg\":{},\"st\":{}", jstr(&src), jstr(&arg), proj(&b)));
            let mut z = b.clone();
            self.play_event(&mut z, m2, 0);
            self.play_event(&mut z, n1, 2);
            self.play_event(&mut z, m1, 1);
            self.observe(&z, None);
            self.out.emit("pair", &format!("\"a\":{},\"o\":{},\"eq\":{}", proj(&first), proj(&z), first == z));
            return;
        }
    }
}

pub fn run(args: &Args) {
    silent_panics();
    let seed = args.num("seed", 1);
    let shards = args.num("shards", 1) as usize;
    let out = args.get("out").expect("--out prefix");
    let histories = args.num("histories", 100);
    let roots = Roots::load();
    let mut sh = Shards::new(out, shards);
    {
        let cfg = Cfg { gen_play_none: args.get("gen-play") == Some("none"), gen_play_all: args.get("gen-play") == Some("all"), gen_play_pawns: args.get("gen-play") == Some("pawnking"), starts_only: args.get("root-mix") == Some("starts"), obs: args.list("obs").into_iter().collect(), plies: args.num("plies", 24), heavy_every: args.num("heavy-every", 1) };
        let mut d = Driver { out: &mut sh, rng: Rng::new(seed), cfg, roots: &roots, all_moves: all_move_values(), states: 0 };
        // subtrees below curated roots: every (position, move) pair near the roots
        let sub = args.num("subtrees", 0);
        let deep = args.num("deep", 0);
        let n = roots.curated.len() as u64;
        if n > 0 {
            // every hand-made root, then a window (rotating with the seed) of the synthesised ones
            let hand = (roots.hand as u64).min(n);
            let ns = n - hand;
            let start = if ns > 0 { d.rng.below(ns) } else { 0 };
            for i in 0..sub.min(n) {
                let idx = if i < hand { i } else { hand + (start + (i - hand)) % ns.max(1) };
                let t = roots.curated[idx as usize].clone();
                if guard(|| d.subtree(&t, i < deep)).is_none() {
                    d.out.emit("aborted", "\"where\":\"subtree\"");
                }
            }
        }
        // a further roots file (relative to the verification directory): the subtree below every record in it
        if let Some(name) = args.get("roots-file") {
            let path = format!("{}/{}", std::env::var("VERIF_ROOT").unwrap_or_else(|_| ".".to_string()), name);
            for t in read_lines(&path) {
                if t.starts_with('#') || t.trim().is_empty() {
                    continue;
                }
                if guard(|| Board::from_fen(&t, true)).and_then(|r| r.ok()).is_none() {
                    panic!("roots file {}: record not accepted by the library: {}", path, t);
                }
                if guard(|| d.subtree(&t, false)).is_none() {
                    d.out.emit("aborted", "\"where\":\"subtree\"");
                }
            }
        }
        if let Some(path) = args.get("sfen-file") {
            for t in read_lines(path) {
                if guard(|| d.generated(&t)).is_none() {
                    d.out.emit("aborted", "\"where\":\"generated\"");
                }
            }
        }
        for _ in 0..args.num("transpositions", 0) {
            if guard(|| d.transpositions()).is_none() {
                d.out.emit("aborted", "\"where\":\"transpositions\"");
            }
        }
        for _ in 0..histories {
            // an unguarded library call that panics (only possible on a corrupted board) ends the history
            if guard(|| d.walk()).is_none() {
                d.out.emit("aborted", "\"where\":\"walk\"");
            }
        }
    }
    println!("{}", sh.finish());
}
