// Value-type drivers: BitBoard (C18), PieceMoves (C17), coordinates and text forms (C19),
// attack / geometry lookups (C05).  Events for Trace_Values.tla.
use crate::util::*;
use cozy_chess::*;

fn strat_bb(rng: &mut Rng) -> BitBoard {
    match rng.below(12) {
        0 => BitBoard::EMPTY,
        1 => BitBoard::FULL,
        2 => Square::index(rng.below(64) as usize).bitboard(),
        3 => Rank::index(rng.below(8) as usize).bitboard(),
        4 => File::index(rng.below(8) as usize).bitboard(),
        5 => BitBoard(rng.next() & rng.next() & rng.next()),
        6 => BitBoard(rng.next() | rng.next() | rng.next()),
        7 => !Square::index(rng.below(64) as usize).bitboard(),
        8 => BitBoard(1u64 << 63) | BitBoard(rng.next() & rng.next()),
        9 => BitBoard(1) | BitBoard(rng.next() & rng.next()),
        _ => BitBoard(rng.next()),
    }
}

fn jbool(b: Option<bool>) -> &'static str {
    match b {
        Some(true) => "1",
        Some(false) => "0",
        None => "2",
    }
}

// what the standard adaptors make of an iterator: nth(n) and what is left after it, count, last, skip(n), step_by(n + 1).
// `len_of` gives the exact remaining length after nth where the iterator promises one (-1 otherwise).
fn adaptors<T, I: Iterator<Item = T>>(mk: &dyn Fn() -> I, n: usize, len_of: &dyn Fn(&I) -> i64, fmt: &dyn Fn(&T) -> String) -> String {
    let r = guard(|| {
        let mut it = mk();
        let x = it.nth(n);
        let l = len_of(&it);
        let hint = it.size_hint();
        let rest: Vec<String> = it.take(6000).map(|t| fmt(&t)).collect();
        let hint_ok = hint.0 <= rest.len() && hint.1.map_or(true, |u| u >= rest.len());
        let count = mk().take(6000).count();
        let last = mk().last();
        let skip: Vec<String> = mk().skip(n).take(6000).map(|t| fmt(&t)).collect();
        let step: Vec<String> = mk().step_by(n + 1).take(6000).map(|t| fmt(&t)).collect();
        format!(
            "{{\"k\":\"ok\",\"n\":{},\"nth\":[{}],\"len\":{},\"hint\":{},\"rest\":[{}],\"count\":{},\"last\":[{}],\"skip\":[{}],\"step\":[{}]}}",
            n, x.map_or(String::new(), |t| fmt(&t)), l, hint_ok, rest.join(","), count, last.map_or(String::new(), |t| fmt(&t)), skip.join(","), step.join(",")
        )
    });
    r.unwrap_or_else(|| format!("{{\"k\":\"panic\",\"n\":{},\"nth\":[],\"len\":0,\"hint\":false,\"rest\":[],\"count\":0,\"last\":[],\"skip\":[],\"step\":[]}}", n))
}

fn gbb(f: impl FnOnce() -> BitBoard) -> String {
    match guard(f) {
        Some(b) => format!("{{\"k\":\"ok\",\"v\":{}}}", jbb(b)),
        None => "{\"k\":\"panic\",\"v\":[]}".to_string(),
    }
}

pub fn run_bb(args: &Args) {
    silent_panics();
    let seed = args.num("seed", 1);
    let mut rng = Rng::new(seed);
    let mut sh = Shards::new(args.get("out").expect("--out"), args.num("shards", 1) as usize);
    let n = args.num("cases", 1000);
    for i in 0..n {
        sh.next_history();
        let a = strat_bb(&mut rng);
        let b = if rng.chance(1, 6) { a } else if rng.chance(1, 6) { a & strat_bb(&mut rng) } else if rng.chance(1, 6) { a | strat_bb(&mut rng) } else { strat_bb(&mut rng) };
        // binary operators and their assigning forms
        let asg = |op: u8| {
            gbb(|| {
                let mut x = a;
                match op {
                    0 => x |= b,
                    1 => x &= b,
                    2 => x ^= b,
                    _ => x -= b,
                }
                x
            })
        };
        let has: Vec<String> = Square::ALL.iter().filter(|&&s| guard(|| a.has(s)) != Some(false)).map(|&s| (s as u8).to_string()).collect();
        let mut sq: Vec<Square> = a.iter().collect();
        // collect from a shuffled, duplicated list of the members
        for k in (1..sq.len()).rev() {
            let j = rng.below(k as u64 + 1) as usize;
            sq.swap(k, j);
        }
        let dup: Vec<Square> = sq.iter().chain(sq.iter().take(3)).copied().collect();
        sh.emit(
            "bb_op",
            &format!(
                "\"a\":{},\"b\":{},\"or\":{},\"and\":{},\"xor\":{},\"sub\":{},\"not\":{},\"or_as\":{},\"and_as\":{},\"xor_as\":{},\"sub_as\":{},\"has\":[{}],\"subset\":{},\"superset\":{},\"disjoint\":{},\"empty\":{},\"len\":{},\"collect\":{},\"flip_r\":{},\"flip_f\":{},\"flip_rr\":{},\"flip_ff\":{},\"next\":{},\"from_sq\":{},\"eq\":{}",
                jbb(a), jbb(b), gbb(|| a | b), gbb(|| a & b), gbb(|| a ^ b), gbb(|| a - b), gbb(|| !a), asg(0), asg(1), asg(2), asg(3), has.join(","),
                jbool(guard(|| a.is_subset(b))), jbool(guard(|| a.is_superset(b))), jbool(guard(|| a.is_disjoint(b))), jbool(guard(|| a.is_empty())),
                guard(|| a.len() as i64).unwrap_or(-1), gbb(|| dup.iter().copied().collect::<BitBoard>()),
                gbb(|| a.flip_ranks()), gbb(|| a.flip_files()), gbb(|| a.flip_ranks().flip_ranks()), gbb(|| a.flip_files().flip_files()),
                guard(|| a.next_square()).map_or(-2, |s| s.map_or(-1, |s| s as i32)),
                gbb(|| BitBoard::from(Square::index(i as usize % 64))), jbool(guard(|| a == b))
            ),
        );
        // the two Debug renderings (no listed property speaks about them; judged as EXT)
        if i % 4 == 0 {
            let pretty = guard(|| format!("{:#?}", a));
            let hex = guard(|| format!("{:?}", a));
            sh.emit(
                "bb_fmt",
                &format!(
                    "\"a\":{},\"k\":\"{}\",\"pretty\":{},\"hex\":{}",
                    jbb(a),
                    if pretty.is_some() && hex.is_some() { "ok" } else { "panic" },
                    jcps(pretty.as_deref().unwrap_or("")),
                    jcps(hex.as_deref().unwrap_or(""))
                ),
            );
        }
        // iteration: members in order, exact remaining length before every step
        let it = guard(|| {
            let mut it = a.iter();
            let mut seq = vec![];
            let mut lens = vec![it.len()];
            let mut hints = vec![];
            while let Some(s) = it.next() {
                seq.push(s as u8);
                lens.push(it.len());
                hints.push(it.size_hint() == (it.len(), Some(it.len())));
                if seq.len() > 70 {
                    break;
                }
            }
            let into: Vec<u8> = a.into_iter().map(|s| s as u8).collect();
            (seq, lens, hints.iter().all(|&h| h), into)
        });
        let n_ad = if rng.chance(1, 4) { a.len() as usize + rng.below(3) as usize } else { rng.below(a.len() as u64 + 1) as usize };
        let ad = adaptors(&|| a.iter(), n_ad, &|it| it.len() as i64, &|s: &Square| (*s as u8).to_string());
        match it {
            Some((seq, lens, hints, into)) => sh.emit("bb_iter", &format!("\"a\":{},\"k\":\"ok\",\"seq\":{},\"lens\":{},\"hints\":{},\"into\":{},\"ad\":{}", jbb(a), jlist(&seq), jlist(&lens), hints, jlist(&into), ad)),
            None => sh.emit("bb_iter", &format!("\"a\":{},\"k\":\"panic\",\"seq\":[],\"lens\":[],\"hints\":false,\"into\":[],\"ad\":{}", jbb(a), ad)),
        }
        // subset iteration on masks of up to `bits` bits (the empty mask first: it has exactly one subset)
        if i % 4 == 0 {
            let bits = if i == 0 { 0 } else { 1 + rng.below(args.num("subset-bits", 8)) };
            let mut m = BitBoard::EMPTY;
            while (m.len() as u64) < bits {
                let s = if rng.chance(1, 5) { 63 - rng.below(3) } else if rng.chance(1, 5) { rng.below(3) } else { rng.below(64) };
                m |= Square::index(s as usize).bitboard();
            }
            let subs = guard(|| {
                let mut v = vec![];
                for s in m.iter_subsets() {
                    v.push(jbb(s));
                    if v.len() > 5000 {
                        break;
                    }
                }
                v
            });
            let total = 1usize << m.len().min(13);
            let n_ad = if rng.chance(1, 4) { total + rng.below(2) as usize } else { rng.below(total as u64) as usize };
            let ad = adaptors(&|| m.iter_subsets(), n_ad, &|_| -1, &|x: &BitBoard| jbb(*x));
            match subs {
                Some(v) => sh.emit("bb_subsets", &format!("\"a\":{},\"k\":\"ok\",\"subs\":[{}],\"ad\":{}", jbb(m), v.join(","), ad)),
                None => sh.emit("bb_subsets", &format!("\"a\":{},\"k\":\"panic\",\"subs\":[],\"ad\":{}", jbb(m), ad)),
            }
        }
    }
    // large masks cannot be enumerated to the end: the first subsets of the full board, of co-singletons and of dense masks
    sh.next_history();
    {
        let mut big: Vec<BitBoard> = vec![BitBoard::FULL, !Square::A1.bitboard(), !Square::H8.bitboard(), BitBoard::FULL - Rank::First.bitboard()];
        for _ in 0..args.num("big-masks", 6) {
            big.push(BitBoard(rng.next() | rng.next() | rng.next()));
        }
        for m in big {
            let head = guard(|| m.iter_subsets().take(70).map(jbb).collect::<Vec<_>>());
            match head {
                Some(v) => sh.emit("bb_subsets_head", &format!("\"a\":{},\"k\":\"ok\",\"head\":[{}]", jbb(m), v.join(","))),
                None => sh.emit("bb_subsets_head", &format!("\"a\":{},\"k\":\"panic\",\"head\":[]", jbb(m))),
            }
        }
    }
    // named constants and File/Rank sets
    sh.next_history();
    let files: Vec<String> = File::ALL.iter().map(|&f| jbb(f.bitboard())).collect();
    let ranks: Vec<String> = Rank::ALL.iter().map(|&r| jbb(r.bitboard())).collect();
    let adj: Vec<String> = File::ALL.iter().map(|&f| jbb(f.adjacent())).collect();
    sh.emit(
        "bb_const",
        &format!(
            "\"empty\":{},\"full\":{},\"edges\":{},\"corners\":{},\"dark\":{},\"light\":{},\"files\":[{}],\"ranks\":[{}],\"adjacent\":[{}],\"from_files\":[{}],\"from_ranks\":[{}],\"from_squares\":[{}],\"sq_bitboard\":[{}]",
            jbb(BitBoard::EMPTY), jbb(BitBoard::FULL), jbb(BitBoard::EDGES), jbb(BitBoard::CORNERS), jbb(BitBoard::DARK_SQUARES), jbb(BitBoard::LIGHT_SQUARES),
            files.join(","), ranks.join(","), adj.join(","),
            File::ALL.iter().map(|&f| jbb(BitBoard::from(f))).collect::<Vec<_>>().join(","),
            Rank::ALL.iter().map(|&r| jbb(BitBoard::from(r))).collect::<Vec<_>>().join(","),
            Square::ALL.iter().map(|&q| jbb(BitBoard::from(q))).collect::<Vec<_>>().join(","),
            Square::ALL.iter().map(|&q| jbb(q.bitboard())).collect::<Vec<_>>().join(",")
        ),
    );
    // the bitboard! macro: the drawing (rank 8 first) next to the value it expands to
    macro_rules! drawn {
        ($($t:tt)*) => {
            (stringify!($($t)*).replace(' ', "").replace('\n', ""), cozy_chess::bitboard! { $($t)* })
        };
    }
    let drawings: Vec<(String, BitBoard)> = vec![
        drawn! {
            X . . . . . . .
            . . . . . . . .
            . . . . . . X .
            . . . . . . . .
            . . . X . . . .
            . . . . . . . .
            . X . . . . . .
            . . . . . . . X
        },
        drawn! {
            . . . X . . . .
            . . . X . . . .
            . . . X . . . .
            . . . X . . . .
            . . . X . . . .
            X X X . X X X X
            . . . X . . . .
            . . . X . . . .
        },
        drawn! {
            X X X X X X X X
            X . . . . . . .
            X . X X X X . .
            X . X . . X . .
            X . X . . . . .
            X . X X X X X X
            X . . . . . . .
            X X X X X X X .
        },
    ];
    for (d, v) in drawings {
        sh.emit("bb_macro", &format!("\"drawing\":{},\"v\":{}", jcps(&d), jbb(v)));
    }
    println!("{}", sh.finish());
}

pub fn pm_event(sh: &mut Shards, all: &[Move], pm: PieceMoves, origin: &str) {
    let r = guard(|| {
        let len = pm.len();
        let empty = pm.is_empty();
        let mut it = pm.into_iter();
        let mut lens = vec![it.len()];
        let mut seq = vec![];
        let mut hints = true;
        while let Some(m) = it.next() {
            seq.push(m);
            lens.push(it.len());
            hints &= it.size_hint() == (it.len(), Some(it.len()));
            if seq.len() > 300 {
                break;
            }
        }
        (len, empty, seq, lens, hints)
    });
    let mut has = vec![];
    let mut has_panics = 0;
    for &m in all {
        match guard(|| pm.has(m)) {
            Some(true) => has.push(m),
            Some(false) => {}
            None => has_panics += 1,
        }
    }
    let total = guard(|| pm.into_iter().take(300).count()).unwrap_or(0);
    let n_ad = (pm.from as usize * 7 + pm.to.len() as usize * 3 + total) % (total + 2);
    let ad = adaptors(&|| pm.into_iter(), n_ad, &|it| it.len() as i64, &|m: &Move| jmove(*m));
    let head = format!("\"src\":\"{}\",\"piece\":{},\"from\":{},\"to\":{},\"ad\":{}", origin, pm.piece as u8 + 1, pm.from as u8, jbb(pm.to), ad);
    match r {
        Some((len, empty, seq, lens, hints)) => sh.emit(
            "pm",
            &format!("{},\"k\":\"ok\",\"len\":{},\"empty\":{},\"seq\":{},\"lens\":{},\"hints\":{},\"has\":{},\"has_panics\":{}", head, len, empty, jmoves(&seq), jlist(&lens), hints, jmoves(&has), has_panics),
        ),
        None => sh.emit("pm", &format!("{},\"k\":\"panic\",\"len\":0,\"empty\":false,\"seq\":[],\"lens\":[],\"hints\":false,\"has\":{},\"has_panics\":{}", head, jmoves(&has), has_panics)),
    }
}

pub fn run_pm(args: &Args) {
    silent_panics();
    let seed = args.num("seed", 1);
    let mut rng = Rng::new(seed);
    let mut sh = Shards::new(args.get("out").expect("--out"), args.num("shards", 1) as usize);
    let all = all_move_values();
    for _ in 0..args.num("cases", 500) {
        sh.next_history();
        let piece = if rng.chance(1, 2) { Piece::Pawn } else { Piece::index(rng.below(6) as usize) };
        let from = Square::index(rng.below(64) as usize);
        let mut to = strat_bb(&mut rng);
        if rng.chance(1, 2) {
            to = to & (Rank::First.bitboard() | Rank::Eighth.bitboard() | BitBoard(rng.next() & rng.next()));
        }
        if rng.chance(1, 3) {
            to = BitBoard(rng.next() & rng.next() & rng.next() & rng.next()) | if rng.chance(1, 2) { Square::index(56 + rng.below(8) as usize).bitboard() } else { Square::index(rng.below(8) as usize).bitboard() };
        }
        pm_event(&mut sh, &all, PieceMoves { piece, from, to }, "random");
    }
    // batches produced by real generation
    let roots = crate::board::Roots::load();
    for _ in 0..args.num("boards", 50) {
        sh.next_history();
        let t = rng.pick(&roots.corpus).clone();
        if let Some(Ok(mut b)) = guard(|| Board::from_fen(&t, true)) {
            for _ in 0..rng.below(12) {
                let mv = legal_moves(&b);
                if mv.is_empty() {
                    break;
                }
                b.play_unchecked(*rng.pick(&mv));
            }
            let mut bt = vec![];
            let _ = guard(|| {
                b.generate_moves(|pm| {
                    bt.push(pm);
                    false
                })
            });
            for pm in bt.into_iter().take(6) {
                pm_event(&mut sh, &all, pm, "generated");
            }
        }
    }
    println!("{}", sh.finish());
}

// ---------------------------------------------------------------- coordinates and text (C19)
fn txt_event<T>(sh: &mut Shards, ty: &str, t: &str, parse: impl Fn(&str) -> Result<T, ()>, code: impl Fn(&T) -> String, fmt: impl Fn(&T) -> String) {
    let r = guard(|| parse(t));
    match r {
        Some(Ok(v)) => {
            let f = guard(|| fmt(&v)).unwrap_or_else(|| "<panic>".to_string());
            sh.emit("txt", &format!("\"ty\":\"{}\",\"t\":{},\"cp\":{},\"k\":\"ok\",\"v\":{},\"fmt\":{}", ty, jstr(t), jcps(t), code(&v), jstr(&f)))
        }
        Some(Err(())) => sh.emit("txt", &format!("\"ty\":\"{}\",\"t\":{},\"cp\":{},\"k\":\"err\",\"v\":[],\"fmt\":\"\"", ty, jstr(t), jcps(t))),
        None => sh.emit("txt", &format!("\"ty\":\"{}\",\"t\":{},\"cp\":{},\"k\":\"panic\",\"v\":[],\"fmt\":\"\"", ty, jstr(t), jcps(t))),
    }
}

fn parse_all(sh: &mut Shards, t: &str, types: &[&str]) {
    for &ty in types {
        match ty {
            "square" => txt_event(sh, ty, t, |s| s.parse::<Square>().map_err(|_| ()), |v| format!("[{}]", *v as u8), |v| format!("{}", v)),
            "file" => txt_event(sh, ty, t, |s| s.parse::<File>().map_err(|_| ()), |v| format!("[{}]", *v as u8), |v| format!("{}", v)),
            "rank" => txt_event(sh, ty, t, |s| s.parse::<Rank>().map_err(|_| ()), |v| format!("[{}]", *v as u8), |v| format!("{}", v)),
            "piece" => txt_event(sh, ty, t, |s| s.parse::<Piece>().map_err(|_| ()), |v| format!("[{}]", *v as u8 + 1), |v| format!("{}", v)),
            "color" => txt_event(sh, ty, t, |s| s.parse::<Color>().map_err(|_| ()), |v| format!("[{}]", *v as u8), |v| format!("{}", v)),
            _ => txt_event(sh, ty, t, |s| s.parse::<Move>().map_err(|_| ()), |v| jmove(*v), |v| format!("{}", v)),
        }
    }
}

const SMALL: [&str; 5] = ["square", "file", "rank", "piece", "color"];

pub fn run_coord(args: &Args) {
    silent_panics();
    let seed = args.num("seed", 1);
    let mut rng = Rng::new(seed);
    let mut sh = Shards::new(args.get("out").expect("--out"), args.num("shards", 1) as usize);
    let full = args.num("full-offsets", 0) == 1;
    let near = args.num("near", 9) as i32;
    // the named constants: identifier, index, text form, position in ALL
    {
        macro_rules! named {
            ($ty:ident: $($n:ident)*) => {
                vec![$((stringify!($n).to_string(), $ty::$n as usize, format!("{}", $ty::$n), $ty::ALL.iter().position(|&x| x == $ty::$n).map_or(-1, |p| p as i64))),*]
            };
        }
        let sq = named!(Square:
            A1 B1 C1 D1 E1 F1 G1 H1 A2 B2 C2 D2 E2 F2 G2 H2 A3 B3 C3 D3 E3 F3 G3 H3 A4 B4 C4 D4 E4 F4 G4 H4
            A5 B5 C5 D5 E5 F5 G5 H5 A6 B6 C6 D6 E6 F6 G6 H6 A7 B7 C7 D7 E7 F7 G7 H7 A8 B8 C8 D8 E8 F8 G8 H8);
        let fl = named!(File: A B C D E F G H);
        let rk = named!(Rank: First Second Third Fourth Fifth Sixth Seventh Eighth);
        let pc = named!(Piece: Pawn Knight Bishop Rook Queen King);
        let cl = named!(Color: White Black);
        let js = |v: &Vec<(String, usize, String, i64)>| v.iter().map(|(n, i, t, p)| format!("[{},{},{},{}]", jcps(n), i, jcps(t), p)).collect::<Vec<_>>().join(",");
        sh.next_history();
        sh.emit(
            "names",
            &format!(
                "\"square\":[{}],\"file\":[{}],\"rank\":[{}],\"piece\":[{}],\"color\":[{}],\"nums\":[{},{},{},{},{}]",
                js(&sq), js(&fl), js(&rk), js(&pc), js(&cl), Square::NUM, File::NUM, Rank::NUM, Piece::NUM, Color::NUM
            ),
        );
    }
    // coordinate functions of every square / file / rank
    for &s in &Square::ALL {
        sh.next_history();
        let t = |f: &dyn Fn() -> i64| guard(|| f()).unwrap_or(-9);
        sh.emit(
            "sq",
            &format!(
                "\"s\":{},\"file\":{},\"rank\":{},\"new\":{},\"flipf\":{},\"flipr\":{},\"relw\":{},\"relb\":{},\"bb\":{},\"idx\":{},\"try_idx\":{},\"txt\":{}",
                s as u8,
                t(&|| s.file() as i64), t(&|| s.rank() as i64), t(&|| Square::new(s.file(), s.rank()) as i64), t(&|| s.flip_file() as i64), t(&|| s.flip_rank() as i64),
                t(&|| s.relative_to(Color::White) as i64), t(&|| s.relative_to(Color::Black) as i64), gbb(|| s.bitboard()), t(&|| Square::index(s as usize) as i64),
                t(&|| Square::try_index(s as usize).map_or(-1, |x| x as i64)), jstr(&guard(|| format!("{}", s)).unwrap_or_default())
            ),
        );
        // all (file, rank) constructions with this square's file
        let news: Vec<String> = Rank::ALL.iter().map(|&r| (Square::new(s.file(), r) as u8).to_string()).collect();
        sh.emit("sqnew", &format!("\"file\":{},\"col\":[{}]", s.file() as u8, news.join(",")));
        // offsets
        let mut some = vec![];
        let mut panics = vec![];
        let mut tried = 0u64;
        let range: Vec<i32> = if full { (-128..=127).collect() } else { let mut v: Vec<i32> = (-near..=near).collect(); v.extend([-128, -127, -126, -121, -120, -119, -100, -64, 64, 100, 119, 120, 121, 126, 127]); v };
        for &df in &range {
            for &dr in &range {
                tried += 1;
                match guard(|| s.try_offset(df as i8, dr as i8)) {
                    Some(Some(x)) => some.push(format!("[{},{},{}]", df, dr, x as u8)),
                    Some(None) => {}
                    None => panics.push(format!("[{},{}]", df, dr)),
                }
            }
        }
        // the panicking variant inside its documented domain only
        let mut off_bad = vec![];
        let mut off = vec![];
        for df in -7i32..=7 {
            for dr in -7i32..=7 {
                let e = s.try_offset(df as i8, dr as i8);
                let g = guard(|| s.offset(df as i8, dr as i8));
                if e.is_some() != g.is_some() || (e.is_some() && e != g) {
                    off_bad.push(format!("[{},{}]", df, dr));
                }
                // what the panicking variant did: the square, or -1 for a panic
                off.push(format!("[{},{},{}]", df, dr, g.map_or(-1, |x| x as i32)));
            }
        }
        panics.truncate(400);
        sh.emit("offs", &format!("\"s\":{},\"full\":{},\"range\":{},\"tried\":{},\"some\":[{}],\"panics\":[{}],\"offset_bad\":[{}],\"off\":[{}]", s as u8, full, jlist(&range), tried, some.join(","), panics.join(","), off_bad.join(","), off.join(",")));
    }
    sh.next_history();
    let ff: Vec<String> = File::ALL.iter().map(|&f| format!("[{},{},{}]", f as u8, f.flip() as u8, File::index(f as usize) as u8)).collect();
    let rr: Vec<String> = Rank::ALL.iter().map(|&r| format!("[{},{},{},{}]", r as u8, r.flip() as u8, r.relative_to(Color::White) as u8, r.relative_to(Color::Black) as u8)).collect();
    let oob: Vec<String> = [8usize, 9, 63, 64, 65, 255, 256, usize::MAX].iter().map(|&i| format!("[{},{},{},{},{},{}]", if i > 1000 { -1 } else { i as i64 }, File::try_index(i).is_some(), Rank::try_index(i).is_some(), Square::try_index(i).is_some(), Piece::try_index(i).is_some(), Color::try_index(i).is_some())).collect();
    sh.emit("fr", &format!("\"files\":[{}],\"ranks\":[{}],\"oob\":[{}],\"not\":[{},{}]", ff.join(","), rr.join(","), oob.join(","), (!Color::White) as u8, (!Color::Black) as u8));

    // text forms: format-then-parse of every value
    sh.next_history();
    for &s in &Square::ALL {
        parse_all(&mut sh, &format!("{}", s), &["square"]);
    }
    for &f in &File::ALL {
        parse_all(&mut sh, &format!("{}", f), &["file"]);
    }
    for &r in &Rank::ALL {
        parse_all(&mut sh, &format!("{}", r), &["rank"]);
    }
    for &p in &Piece::ALL {
        parse_all(&mut sh, &format!("{}", p), &["piece"]);
    }
    for &c in &Color::ALL {
        parse_all(&mut sh, &format!("{}", c), &["color"]);
    }
    // every string of length <= 2 over a small alphabet, for the one- and two-character types
    let al: Vec<char> = "abhiwpnqk1089ABW -".chars().collect();
    sh.next_history();
    parse_all(&mut sh, "", &SMALL);
    parse_all(&mut sh, "", &["move"]);
    for &a in &al {
        parse_all(&mut sh, &a.to_string(), &SMALL);
        for &b in &al {
            let t: String = [a, b].iter().collect();
            parse_all(&mut sh, &t, &["square", "file", "rank"]);
        }
    }
    for t in ["e4 ", " e4", "e44", "E4", "é4", "e٤", "a1\0", "ａ1", "a１", "e4\n", "kk", "P", "N", "W", "B", "white", "wb", "ee", "11"] {
        parse_all(&mut sh, t, &SMALL);
    }
    // look-alikes: one character of a valid text replaced by a code point congruent to it modulo 256 / 65536
    // (catches parsers that truncate characters to bytes), and by its upper-case / full-width form
    {
        let mut valid: Vec<(&str, String)> = vec![];
        for &s in &Square::ALL {
            if (s as usize) % 5 == 0 {
                valid.push(("square", format!("{}", s)));
            }
        }
        for &f in &File::ALL {
            valid.push(("file", format!("{}", f)));
        }
        for &r in &Rank::ALL {
            valid.push(("rank", format!("{}", r)));
        }
        for &p in &Piece::ALL {
            valid.push(("piece", format!("{}", p)));
        }
        for &c in &Color::ALL {
            valid.push(("color", format!("{}", c)));
        }
        for t in ["e2e4", "a7a8q", "h2h1n", "b1c3"] {
            valid.push(("move", t.to_string()));
        }
        sh.next_history();
        for (ty, t) in valid {
            let cs: Vec<char> = t.chars().collect();
            for i in 0..cs.len() {
                for ch in lookalikes(cs[i]) {
                    let mut c = cs.clone();
                    c[i] = ch;
                    let v: String = c.iter().collect();
                    parse_all(&mut sh, &v, &[ty]);
                }
            }
        }
    }
    // moves: all legal-shape values (sampled unless --all-moves 1), near misses, random strings
    let all_moves = args.num("all-moves", 0) == 1;
    let promo = [None, Some(Piece::Knight), Some(Piece::Bishop), Some(Piece::Rook), Some(Piece::Queen)];
    let mut k = 0u64;
    for &f in &Square::ALL {
        sh.next_history();
        for &t in &Square::ALL {
            for &p in &promo {
                k += 1;
                if all_moves || (k + seed) % 23 == 0 {
                    let m = Move { from: f, to: t, promotion: p };
                    parse_all(&mut sh, &format!("{}", m), &["move"]);
                }
            }
        }
    }
    let pool: Vec<char> = "abcdefgh12345678nbrqkpNBRQKP xX-=+#0i9é٤ａ\u{1F600}\0".chars().collect();
    for i in 0..args.num("move-fuzz", 2000) {
        if i % 64 == 0 {
            sh.next_history();
        }
        let m = Move { from: Square::index(rng.below(64) as usize), to: Square::index(rng.below(64) as usize), promotion: *rng.pick(&promo) };
        let base: Vec<char> = format!("{}", m).chars().collect();
        let mut c = base.clone();
        match rng.below(9) {
            0 => c.push(*rng.pick(&pool)),
            1 => {
                c.push(*rng.pick(&pool));
                c.push(*rng.pick(&pool));
            }
            2 => {
                let p = rng.below(c.len() as u64) as usize;
                c.remove(p);
            }
            3 => {
                let p = rng.below(c.len() as u64) as usize;
                c[p] = *rng.pick(&pool);
            }
            4 => {
                let p = rng.below(c.len() as u64 + 1) as usize;
                c.insert(p, *rng.pick(&pool));
            }
            5 => {
                let p = rng.below(c.len() as u64) as usize;
                c[p] = c[p].to_ascii_uppercase();
            }
            6 => {
                c.truncate(4);
                c.push(*rng.pick(&['k', 'p', 'K', 'P', 'q', 'Q', 'n', 'x', ' ']));
            }
            7 => {
                c = (0..rng.below(8)).map(|_| *rng.pick(&pool)).collect();
            }
            _ => {}
        }
        let t: String = c.iter().collect();
        parse_all(&mut sh, &t, &["move"]);
    }
    println!("{}", sh.finish());
}

// ---------------------------------------------------------------- geometry (C05)
pub fn run_geom(args: &Args) {
    silent_panics();
    let seed = args.num("seed", 1);
    let mut rng = Rng::new(seed);
    let mut sh = Shards::new(args.get("out").expect("--out"), args.num("shards", 1) as usize);
    let rook_squares = args.num("rook-squares", 16);
    let bishop_squares = args.num("bishop-squares", 64);
    let chunk = 48;
    // leapers, rays, between, line for every argument
    for &s in &Square::ALL {
        sh.next_history();
        sh.emit(
            "leap",
            &format!(
                "\"s\":{},\"knight\":{},\"king\":{},\"pw\":{},\"pb\":{},\"rr\":{},\"br\":{}",
                s as u8, gbb(|| get_knight_moves(s)), gbb(|| get_king_moves(s)), gbb(|| get_pawn_attacks(s, Color::White)), gbb(|| get_pawn_attacks(s, Color::Black)),
                gbb(|| get_rook_rays(s)), gbb(|| get_bishop_rays(s))
            ),
        );
        let bt: Vec<String> = Square::ALL.iter().map(|&t| gbb(|| get_between_rays(s, t))).collect();
        let ln: Vec<String> = Square::ALL.iter().map(|&t| gbb(|| get_line_rays(s, t))).collect();
        sh.emit("bl", &format!("\"s\":{},\"between\":[{}],\"line\":[{}]", s as u8, bt.join(","), ln.join(",")));
        // pawn pushes: the four occupancy classes of the two squares ahead x random other bits, both colours
        let mut cases = vec![];
        for &c in &Color::ALL {
            for cls in 0..4u64 {
                for _ in 0..3 {
                    let mut occ = BitBoard(rng.next() & rng.next());
                    let one = s.try_offset(0, if c == Color::White { 1 } else { -1 });
                    let two = s.try_offset(0, if c == Color::White { 2 } else { -2 });
                    for (bit, sq) in [(1, one), (2, two)] {
                        if let Some(q) = sq {
                            if cls & bit != 0 {
                                occ |= q.bitboard();
                            } else {
                                occ = occ & !q.bitboard();
                            }
                        }
                    }
                    cases.push(format!("[{},{},{}]", c as u8, jbb(occ), gbb(|| get_pawn_quiets(s, c, occ))));
                }
            }
        }
        sh.emit("pq", &format!("\"s\":{},\"cases\":[{}]", s as u8, cases.join(",")));
    }
    // sliders: every subset of the relevant mask x three fillings of the irrelevant bits
    let start = rng.below(64);
    for kind in 0..2u8 {
        let nsq = if kind == 0 { rook_squares } else { bishop_squares };
        let sample = args.num("slider-sample", 200);
        for i in 0..64 {
            let s = Square::index(((start + i * 5) % 64) as usize);
            let mask = if kind == 0 { get_rook_relevant_blockers_spec(s) } else { get_bishop_relevant_blockers_spec(s) };
            let mut cases: Vec<String> = vec![];
            let rnd = BitBoard(rng.next());
            let mut subs: Vec<BitBoard> = vec![];
            if i < nsq.min(64) {
                // every subset: own carry-rippler on the raw word (the library's subset iterator is itself under test in C18)
                let mut w = 0u64;
                loop {
                    subs.push(BitBoard(w));
                    w = w.wrapping_sub(mask.0) & mask.0;
                    if w == 0 {
                        break;
                    }
                }
            } else {
                // the remaining squares: the empty and the full relevant set, every single blocker, random subsets
                subs.push(BitBoard::EMPTY);
                subs.push(mask);
                for b in mask {
                    subs.push(b.bitboard());
                    subs.push(mask & !b.bitboard());
                }
                for _ in 0..sample {
                    subs.push(BitBoard(rng.next() & mask.0));
                }
            }
            for sub in subs {
                for fill in [BitBoard::EMPTY, !mask, rnd & !mask] {
                    let occ = sub | fill;
                    let (a, b) = if kind == 0 { (gbb(|| get_rook_moves(s, occ)), gbb(|| get_rook_moves_const(s, occ))) } else { (gbb(|| get_bishop_moves(s, occ)), gbb(|| get_bishop_moves_const(s, occ))) };
                    cases.push(format!("[{},{},{}]", jbb(occ), a, b));
                    if cases.len() == chunk {
                        sh.next_history();
                        sh.emit("sl", &format!("\"kind\":{},\"s\":{},\"cases\":[{}]", kind, s as u8, cases.join(",")));
                        cases.clear();
                    }
                }
            }
            if !cases.is_empty() {
                sh.next_history();
                sh.emit("sl", &format!("\"kind\":{},\"s\":{},\"cases\":[{}]", kind, s as u8, cases.join(",")));
            }
        }
    }
    // random full occupancies
    let mut cases: Vec<String> = vec![];
    for i in 0..args.num("random-occ", 2000) {
        let s = Square::index(rng.below(64) as usize);
        let occ = strat_bb(&mut rng);
        let kind = (i % 2) as u8;
        let (a, b) = if kind == 0 { (gbb(|| get_rook_moves(s, occ)), gbb(|| get_rook_moves_const(s, occ))) } else { (gbb(|| get_bishop_moves(s, occ)), gbb(|| get_bishop_moves_const(s, occ))) };
        sh.next_history();
        sh.emit("sl", &format!("\"kind\":{},\"s\":{},\"cases\":[[{},{},{}]]", kind, s as u8, jbb(occ), a, b));
        cases.clear();
    }
    println!("{}", sh.finish());
}

// The relevant-blocker masks, computed here from plain coordinates (the library's own mask
// functions are not part of its public API).
fn get_rook_relevant_blockers_spec(s: Square) -> BitBoard {
    let mut m = BitBoard::EMPTY;
    for &t in &Square::ALL {
        if t == s {
            continue;
        }
        if t.file() == s.file() && t.rank() != Rank::First && t.rank() != Rank::Eighth {
            m |= t.bitboard();
        }
        if t.rank() == s.rank() && t.file() != File::A && t.file() != File::H {
            m |= t.bitboard();
        }
    }
    m
}
fn get_bishop_relevant_blockers_spec(s: Square) -> BitBoard {
    let mut m = BitBoard::EMPTY;
    for &t in &Square::ALL {
        let df = (t.file() as i32 - s.file() as i32).abs();
        let dr = (t.rank() as i32 - s.rank() as i32).abs();
        if df == dr && df != 0 && t.file() != File::A && t.file() != File::H && t.rank() != Rank::First && t.rank() != Rank::Eighth {
            m |= t.bitboard();
        }
    }
    m
}
