-------------------------------- MODULE Impl --------------------------------
(***************************************************************************)
(* L2: the algorithms of the implementation, transcribed statement by      *)
(* statement, so that TLC can check  L2 = L1  on the specification itself  *)
(* (module Chess): ZobristBoard with XOR writers (zobrist.rs),             *)
(* play_unchecked and null_move (board/mod.rs), the move generator with    *)
(* pin / check masks, is_legal, can_castle, king_safe_on (movegen/mod.rs), *)
(* status, same_position, and the staged validator (validate.rs as called  *)
(* by parse.rs / builder.rs).                                              *)
(*                                                                         *)
(* A ZobristBoard is  [pieces : [1..6 -> SUBSET Sq], colors : [0..1 ->     *)
(* SUBSET Sq], stm, cr, ep, hash]  where hash is the SET of features whose *)
(* keys are currently XORed in (XOR = symmetric difference).               *)
(***************************************************************************)
EXTENDS Rules

SymDiff(X, Y) == (X \ Y) \cup (Y \ X)
Toggle(S, s) == IF s \in S THEN S \ {s} ELSE S \cup {s}

(* ---- ZobristBoard ---- *)
ZbEmpty == [pieces |-> [k \in 1..6 |-> {}], colors |-> [c \in 0..1 |-> {}], stm |-> 0,
            cr |-> <<-1,-1,-1,-1>>, ep |-> -1, hash |-> {}]
XorSquare(zb, k, c, s) == [zb EXCEPT !.pieces[k] = Toggle(@, s), !.colors[c] = Toggle(@, s),
                                     !.hash = SymDiff(@, {<<"pc", Mk(c, k), s>>})]
SetCastleRight(zb, c, short, f) ==
  LET i == 2*c + (IF short THEN 1 ELSE 2)  prev == zb.cr[i]
      h1 == IF prev # -1 THEN SymDiff(zb.hash, {<<"cr", c, prev>>}) ELSE zb.hash
      h2 == IF f # -1 THEN SymDiff(h1, {<<"cr", c, f>>}) ELSE h1
  IN [zb EXCEPT !.cr[i] = f, !.hash = h2]
SetEnPassant(zb, f) ==
  LET h1 == IF zb.ep # -1 THEN SymDiff(zb.hash, {<<"ep", zb.ep>>}) ELSE zb.hash
      h2 == IF f # -1 THEN SymDiff(h1, {<<"ep", f>>}) ELSE h1
  IN [zb EXCEPT !.ep = f, !.hash = h2]
ToggleSide(zb) == [zb EXCEPT !.stm = 1 - @, !.hash = SymDiff(@, {<<"stm">>})]
HashWithoutEp(zb) == IF zb.ep # -1 THEN SymDiff(zb.hash, {<<"ep", zb.ep>>}) ELSE zb.hash

ZOcc(zb) == zb.colors[0] \cup zb.colors[1]
ZPieceOn(zb, s) == IF \E k \in 1..6 : s \in zb.pieces[k] THEN MinOf({k \in 1..6 : s \in zb.pieces[k]}) ELSE 0   \* Piece::ALL.find
ZColorOn(zb, s) == IF s \in zb.colors[0] THEN 0 ELSE IF s \in zb.colors[1] THEN 1 ELSE 2
ZColored(zb, c, k) == zb.colors[c] \cap zb.pieces[k]
ZKing(zb, c) == MinOf(ZColored(zb, c, KING))                     \* next_square of the king bitboard
\* the bitboards describe a placement: kinds pairwise disjoint, colours disjoint, same occupancy
ZWellFormed(zb) == /\ \A j, k \in 1..6 : j # k => zb.pieces[j] \cap zb.pieces[k] = {}
                   /\ zb.colors[0] \cap zb.colors[1] = {}
                   /\ UNION {zb.pieces[k] : k \in 1..6} = ZOcc(zb)
\* refinement mapping to the abstract position (clocks are kept beside the ZobristBoard)
\* (TLCEval: the function is computed once instead of being re-evaluated lazily at every application)
AbsB(zb) == TLCEval([s \in Sq |-> IF ZColorOn(zb, s) = 2 THEN 0 ELSE Mk(ZColorOn(zb, s), ZPieceOn(zb, s))])
AbsPos(zb, hmc, fmn) == [b |-> AbsB(zb), stm |-> zb.stm, cr |-> zb.cr, ep |-> zb.ep, hmc |-> hmc, fmn |-> fmn]
\* a board built the way the constructors do it: xor_square per piece, then side, rights, ep
RECURSIVE ZbPlace(_,_,_)
ZbPlace(zb, b, s) == IF s > 63 THEN zb
                     ELSE ZbPlace(IF b[s] = 0 THEN zb ELSE XorSquare(zb, KindOf(b[s]), ColorOf(b[s]), s), b, s + 1)
ZbOf(p) ==
  LET z1 == ZbPlace(ZbEmpty, p.b, 0)
      z2 == IF p.stm = 1 THEN ToggleSide(z1) ELSE z1
      z3 == SetCastleRight(SetCastleRight(SetCastleRight(SetCastleRight(z2, 0, TRUE, p.cr[1]), 0, FALSE, p.cr[2]), 1, TRUE, p.cr[3]), 1, FALSE, p.cr[4])
  IN SetEnPassant(z3, p.ep)

(* ---- calculate_checkers_and_pins (validate.rs) for the king of colour c ---- *)
SlidersToward(zb, c, ks) ==       \* enemy sliders on an empty-board ray of their kind through the king
  zb.colors[1-c] \cap ((BishopRays[ks] \cap (zb.pieces[BISHOP] \cup zb.pieces[QUEEN]))
                       \cup (RookRays[ks] \cap (zb.pieces[ROOK] \cup zb.pieces[QUEEN])))
CalcCheckersPins(zb, c) ==
  LET ks == ZKing(zb, c)  occ == ZOcc(zb)  att == SlidersToward(zb, c, ks)
      chkS == {a \in att : Between(a, ks) \cap occ = {}}
      pinS == UNION {IF Cardinality(Between(a, ks) \cap occ) = 1 THEN Between(a, ks) \cap occ ELSE {} : a \in att}
      chkN == KnightAtt[ks] \cap zb.colors[1-c] \cap zb.pieces[KNIGHT]
      chkP == PawnAtt[c][ks] \cap zb.colors[1-c] \cap zb.pieces[PAWN]
  IN [chk |-> chkS \cup chkN \cup chkP, pin |-> pinS]

(* ---- play_unchecked (board/mod.rs) ---- *)
\* full board state: [zb, chk, pin, hmc, fmn]
PlayUnchecked(bd, m) ==
  LET zb == bd.zb  s == m[1]  t == m[2]
      moved == ZPieceOn(zb, s)  victim == ZPieceOn(zb, t)
      c == zb.stm  o == 1 - c
      theirKing == ZKing(zb, o)
      ourBack == BackRank(c)  theirBack == BackRank(o)
      isCastle == t \in zb.colors[c]
      hmc == IF moved = PAWN \/ (victim # 0 /\ ~isCastle) THEN 0
             ELSE IF bd.hmc + 1 > 100 THEN 100 ELSE bd.hmc + 1
      fmn == IF c = 1 THEN (IF bd.fmn = 65535 THEN 65535 ELSE bd.fmn + 1) ELSE bd.fmn
      \* castle branch: lift king and rook, drop them on g/f or c/d, remove both rights
      zCastle == LET short == FileOf(s) < FileOf(t)
                     kf == IF short THEN 6 ELSE 2  rf == IF short THEN 5 ELSE 3
                     a1 == XorSquare(zb, KING, c, s)  a2 == XorSquare(a1, ROOK, c, t)
                     a3 == XorSquare(a2, KING, c, SqOf(kf, ourBack))  a4 == XorSquare(a3, ROOK, c, SqOf(rf, ourBack))
                 IN SetCastleRight(SetCastleRight(a4, c, TRUE, -1), c, FALSE, -1)
      \* normal branch
      n1 == XorSquare(XorSquare(zb, moved, c, s), moved, c, t)
      n2 == IF victim # 0
            THEN LET v1 == XorSquare(n1, victim, o, t)     \* victim = moved: the piece bit was XORed out, this puts it back
                 IN IF RankOf(t) = theirBack
                    THEN IF FileOf(t) = v1.cr[2*o+1] THEN SetCastleRight(v1, o, TRUE, -1)
                         ELSE IF FileOf(t) = v1.cr[2*o+2] THEN SetCastleRight(v1, o, FALSE, -1) ELSE v1
                    ELSE v1
            ELSE n1
      epSquare == IF zb.ep = -1 THEN -1 ELSE SqOf(zb.ep, RankRelativeTo(5, c))
      dbl == RankOf(s) \in {1, 6} /\ RankOf(t) \in {3, 4}
      n3 == CASE moved = PAWN /\ m[3] # 0 -> XorSquare(XorSquare(n2, PAWN, c, t), m[3], c, t)
              [] moved = PAWN /\ m[3] = 0 /\ ~dbl /\ t = epSquare -> XorSquare(n2, PAWN, o, SqOf(FileOf(t), RankRelativeTo(4, c)))
              [] moved = KING -> SetCastleRight(SetCastleRight(n2, c, TRUE, -1), c, FALSE, -1)
              [] moved = ROOK /\ RankOf(s) = ourBack ->
                    IF FileOf(s) = n2.cr[2*c+1] THEN SetCastleRight(n2, c, TRUE, -1)
                    ELSE IF FileOf(s) = n2.cr[2*c+2] THEN SetCastleRight(n2, c, FALSE, -1) ELSE n2
              [] OTHER -> n2
      newEp == IF ~isCastle /\ moved = PAWN /\ m[3] = 0 /\ dbl THEN FileOf(t) ELSE -1
      z5 == SetEnPassant(IF isCastle THEN zCastle ELSE n3, newEp)
      \* checkers of the non-sliding moved piece
      c0 == IF isCastle THEN {} ELSE
            CASE moved = KNIGHT -> KnightAtt[theirKing] \cap {t}
              [] moved = PAWN /\ m[3] = KNIGHT -> KnightAtt[theirKing] \cap {t}
              [] moved = PAWN /\ m[3] = 0 -> PawnAtt[o][theirKing] \cap {t}
              [] OTHER -> {}
      \* sliders: between-count 0 -> checker, 1 -> pin
      occ == ZOcc(z5)
      att == z5.colors[c] \cap ((BishopRays[theirKing] \cap (z5.pieces[BISHOP] \cup z5.pieces[QUEEN]))
                                \cup (RookRays[theirKing] \cap (z5.pieces[ROOK] \cup z5.pieces[QUEEN])))
      c1 == c0 \cup {a \in att : Between(a, theirKing) \cap occ = {}}
      p1 == UNION {IF Cardinality(Between(a, theirKing) \cap occ) = 1 THEN Between(a, theirKing) \cap occ ELSE {} : a \in att}
  IN [zb |-> ToggleSide(z5), chk |-> c1, pin |-> p1, hmc |-> hmc, fmn |-> fmn]

(* ---- null_move ---- *)
NullMoveEnabled(bd) == bd.chk = {}
NullMoveImpl(bd) ==
  LET hmc == IF bd.hmc + 1 > 100 THEN 100 ELSE bd.hmc + 1
      fmn == IF bd.zb.stm = 1 THEN (IF bd.fmn = 65535 THEN 65535 ELSE bd.fmn + 1) ELSE bd.fmn
      z == SetEnPassant(ToggleSide(bd.zb), -1)
      c == z.stm  ks == ZKing(z, c)  occ == ZOcc(z)
      att == SlidersToward(z, c, ks)
      pin == UNION {IF Cardinality(Between(a, ks) \cap occ) = 1 THEN Between(a, ks) \cap occ ELSE {} : a \in att}
  IN [zb |-> z, chk |-> bd.chk, pin |-> pin, hmc |-> hmc, fmn |-> fmn]

(* ---- move generation (movegen/mod.rs) ---- *)
\* per-position context, computed once
Cx(bd) == LET zb == bd.zb  c == zb.stm  ks == ZKing(zb, c)  n == Cardinality(bd.chk) IN
  [c |-> c, ks |-> ks, n |-> n, occ |-> ZOcc(zb), own |-> zb.colors[c], their |-> zb.colors[1-c],
   \* target_squares: in single check the checker and the squares between it and the king
   tg |-> IF n = 0 THEN Sq \ zb.colors[c]
         ELSE LET ch == MinOf(bd.chk) IN (Between(ch, ks) \cup {ch}) \ zb.colors[c]]
RookMoves(s, occ) == RookAttOcc(occ, s)
BishopMoves(s, occ) == BishopAttOcc(occ, s)
\* one batch per origin in ascending square order, empty ones dropped; a batch is <<kind, from, to-set>>
Batches(kind, froms, movesOf(_)) ==
  LET sq == SeqOfSet(froms)
      RECURSIVE G(_)
      G(i) == IF i > Len(sq) THEN <<>> ELSE
              LET to == movesOf(sq[i]) IN (IF to = {} THEN <<>> ELSE << <<kind, sq[i], to>> >>) \o G(i+1)
  IN G(1)

SliderLegals(bd, cx, mask, kind, inCheck) ==
  LET zb == bd.zb  pieces == ZColored(zb, cx.c, kind) \cap mask
      pl(s) == CASE kind = BISHOP -> BishopMoves(s, cx.occ) [] kind = ROOK -> RookMoves(s, cx.occ)
                 [] kind = QUEEN -> BishopMoves(s, cx.occ) \cup RookMoves(s, cx.occ)
      free(s) == pl(s) \cap cx.tg
      pinned(s) == pl(s) \cap cx.tg \cap Line(cx.ks, s)
  IN Batches(kind, pieces \ bd.pin, free) \o (IF inCheck THEN <<>> ELSE Batches(kind, pieces \cap bd.pin, pinned))
KnightLegals(bd, cx, mask) ==
  LET mv(s) == KnightAtt[s] \cap cx.tg
  IN Batches(KNIGHT, (ZColored(bd.zb, cx.c, KNIGHT) \cap mask) \ bd.pin, mv)
PawnLegals(bd, cx, mask, inCheck) ==
  LET zb == bd.zb  c == cx.c  pieces == ZColored(zb, c, PAWN) \cap mask
      base(s) == PawnQuiets(s, c, cx.occ) \cup (PawnAtt[c][s] \cap cx.their)
      free(s) == base(s) \cap cx.tg
      pinned(s) == base(s) \cap cx.tg \cap Line(cx.ks, s)
      epPart == IF zb.ep = -1 THEN <<>> ELSE
        LET dest == SqOf(zb.ep, RankRelativeTo(2, 1-c))  victim == SqOf(zb.ep, RankRelativeTo(3, 1-c))
            diag == cx.their \cap (zb.pieces[BISHOP] \cup zb.pieces[QUEEN])
            orth == cx.their \cap (zb.pieces[ROOK] \cup zb.pieces[QUEEN])
            \* blockers ^ victim ^ piece | dest   (victim and piece are occupied, so XOR removes them)
            ok(s) == LET occ2 == (SymDiff(SymDiff(cx.occ, {victim}), {s})) \cup {dest}
                     IN ~(BishopRays[cx.ks] \cap diag # {} /\ BishopMoves(cx.ks, occ2) \cap diag # {})
                        /\ ~(RookRays[cx.ks] \cap orth # {} /\ RookMoves(cx.ks, occ2) \cap orth # {})
            to(s) == IF ok(s) THEN {dest} ELSE {}
        IN Batches(PAWN, PawnAtt[1-c][dest] \cap pieces, to)
  IN Batches(PAWN, pieces \ bd.pin, free) \o (IF inCheck THEN <<>> ELSE Batches(PAWN, pieces \cap bd.pin, pinned)) \o epPart
KingSafeOn(bd, cx, s) ==
  LET zb == bd.zb  occ == SymDiff(cx.occ, ZColored(zb, cx.c, KING)) \cup {s} IN
  /\ BishopMoves(s, occ) \cap cx.their \cap (zb.pieces[BISHOP] \cup zb.pieces[QUEEN]) = {}
  /\ RookMoves(s, occ) \cap cx.their \cap (zb.pieces[ROOK] \cup zb.pieces[QUEEN]) = {}
  /\ KnightAtt[s] \cap cx.their \cap zb.pieces[KNIGHT] = {}
  /\ KingAtt[s] \cap cx.their \cap zb.pieces[KING] = {}
  /\ PawnAtt[cx.c][s] \cap cx.their \cap zb.pieces[PAWN] = {}
CanCastle(bd, cx, rookFile, kingDestFile, rookDestFile) ==
  LET br == BackRank(cx.c)
      rook == SqOf(rookFile, br)  kd == SqOf(kingDestFile, br)  rd == SqOf(rookDestFile, br)
      blockers == SymDiff(SymDiff(cx.occ, {cx.ks}), {rook})
      mustSafe == Between(cx.ks, kd) \cup {kd}
      mustEmpty == mustSafe \cup Between(cx.ks, rook) \cup {rd}
  IN rook \notin bd.pin /\ blockers \cap mustEmpty = {} /\ \A s \in mustSafe : KingSafeOn(bd, cx, s)
KingLegals(bd, cx, mask, inCheck) ==
  LET zb == bd.zb  c == cx.c  br == BackRank(c)
      steps == {t \in KingAtt[cx.ks] \ cx.own : KingSafeOn(bd, cx, t)}
      cs == IF inCheck THEN {} ELSE
            (IF zb.cr[2*c+1] # -1 /\ CanCastle(bd, cx, zb.cr[2*c+1], 6, 5) THEN {SqOf(zb.cr[2*c+1], br)} ELSE {})
            \cup (IF zb.cr[2*c+2] # -1 /\ CanCastle(bd, cx, zb.cr[2*c+2], 2, 3) THEN {SqOf(zb.cr[2*c+2], br)} ELSE {})
      mv == steps \cup cs
  IN IF cx.ks \notin mask \/ mv = {} THEN <<>> ELSE << <<KING, cx.ks, mv>> >>
\* generate_moves_for: the batches in the order the listener sees them
GenFor(bd, mask) ==
  LET cx == Cx(bd)
      all(ic) == PawnLegals(bd, cx, mask, ic) \o KnightLegals(bd, cx, mask)
                 \o SliderLegals(bd, cx, mask, BISHOP, ic) \o SliderLegals(bd, cx, mask, ROOK, ic) \o SliderLegals(bd, cx, mask, QUEEN, ic)
                 \o KingLegals(bd, cx, mask, ic)
  IN IF cx.n = 0 THEN all(FALSE) ELSE IF cx.n = 1 THEN all(TRUE) ELSE KingLegals(bd, cx, mask, TRUE)
BatchMovesI(bt) == UNION {IF bt[1] = PAWN /\ RankOf(t) \in {0, 7} THEN {<<bt[2], t, k>> : k \in 2..5} ELSE {<<bt[2], t, 0>>} : t \in bt[3]}
MovesOfGen(bs) == UNION {BatchMovesI(bs[i]) : i \in 1..Len(bs)}
BatchLenI(bt) == IF bt[1] = PAWN THEN Cardinality({t \in bt[3] : RankOf(t) \notin {0,7}}) + 4 * Cardinality({t \in bt[3] : RankOf(t) \in {0,7}})
                 ELSE Cardinality(bt[3])
RECURSIVE TotalLenI(_,_)
TotalLenI(bs, i) == IF i > Len(bs) THEN 0 ELSE BatchLenI(bs[i]) + TotalLenI(bs, i+1)

(* ---- is_legal / king_is_legal ---- *)
\* per-origin context
Ox(bd, cx, s) == LET k == ZPieceOn(bd.zb, s) IN
  [k |-> k, line |-> IF s \in bd.pin THEN Line(cx.ks, s) ELSE Sq,
   pawnTo |-> IF k = PAWN /\ cx.n < 2 THEN LET bs == PawnLegals(bd, cx, {s}, cx.n = 1) IN UNION {bs[i][3] : i \in 1..Len(bs)} ELSE {}]
IsLegalCx(bd, cx, ox, s, t, pr) ==
  LET zb == bd.zb  c == cx.c  br == BackRank(c) IN
  IF s \notin cx.own THEN FALSE
  ELSE IF s = cx.ks THEN
       pr = 0 /\ ( \/ /\ bd.chk = {}
                      /\ \/ zb.cr[2*c+1] # -1 /\ SqOf(zb.cr[2*c+1], br) = t /\ CanCastle(bd, cx, zb.cr[2*c+1], 6, 5)
                         \/ zb.cr[2*c+2] # -1 /\ SqOf(zb.cr[2*c+2], br) = t /\ CanCastle(bd, cx, zb.cr[2*c+2], 2, 3)
                   \/ t \in KingAtt[s] /\ t \notin cx.own /\ KingSafeOn(bd, cx, t) )
  ELSE IF t \notin ox.line THEN FALSE
  ELSE IF cx.n >= 2 THEN FALSE
  ELSE IF ox.k # PAWN /\ pr # 0 THEN FALSE
  ELSE CASE ox.k = PAWN -> (IF RankOf(t) = PromoRank(c) THEN pr \in 2..5 ELSE pr = 0) /\ t \in ox.pawnTo
         [] ox.k = ROOK -> t \in cx.tg /\ t \in RookRays[s] /\ Between(s, t) \cap cx.occ = {}
         [] ox.k = BISHOP -> t \in cx.tg /\ t \in BishopRays[s] /\ Between(s, t) \cap cx.occ = {}
         [] ox.k = KNIGHT -> t \in cx.tg /\ t \in KnightAtt[s]
         [] ox.k = QUEEN -> t \in cx.tg /\ (t \in RookRays[s] \/ t \in BishopRays[s]) /\ Between(s, t) \cap cx.occ = {}
         [] OTHER -> FALSE
IsLegalImpl(bd, m) == LET cx == Cx(bd) IN IsLegalCx(bd, cx, Ox(bd, cx, m[1]), m[1], m[2], m[3])
\* the set of move values with origin in `origins` for which is_legal answers true
IsLegalTrueSet(bd, origins) ==
  LET cx == Cx(bd) IN
  UNION {LET ox == Ox(bd, cx, s) IN {m \in {<<s, t, pr>> : t \in Sq, pr \in 0..6} : IsLegalCx(bd, cx, ox, m[1], m[2], m[3])} : s \in origins}

(* ---- status, same_position ---- *)
StatusImpl(bd) == IF GenFor(bd, Sq) # <<>> THEN (IF bd.hmc < 100 THEN "ongoing" ELSE "drawn")
                  ELSE IF bd.chk = {} THEN "drawn" ELSE "won"
EffectiveEpImpl(bd) ==
  IF bd.zb.ep = -1 THEN -1 ELSE
  LET c == bd.zb.stm  epSq == SqOf(bd.zb.ep, RankRelativeTo(5, c))
      attackers == PawnAtt[1-c][epSq] \cap ZColored(bd.zb, c, PAWN)
  IN IF \E a \in attackers : IsLegalImpl(bd, <<a, epSq, 0>>) THEN bd.zb.ep ELSE -1
SamePositionImpl(x, y) == /\ HashWithoutEp(x.zb) = HashWithoutEp(y.zb)
                          /\ x.zb.pieces = y.zb.pieces /\ x.zb.colors = y.zb.colors /\ x.zb.stm = y.zb.stm /\ x.zb.cr = y.zb.cr
                          /\ EffectiveEpImpl(x) = EffectiveEpImpl(y)

(* ---- the staged validator, as called by the parser and the builder ---- *)
\* input: a candidate state [b, stm, cr, ep (file), hmc, fmn] whose ep RANK was already checked by the caller
StageBoard(p) ==          \* board_is_valid + fewer than three checkers
  LET b == p.b  c == p.stm
      countsOk == \A k \in 0..1 : /\ Cardinality(Own(b, k)) <= 16 /\ Cardinality(Kings(b, k)) = 1
                                   /\ Cardinality(PiecesOf(b, k, PAWN)) <= 8
                                   /\ \A s \in PiecesOf(b, k, PAWN) : RankOf(s) \notin {0, 7}
  IN /\ countsOk
     /\ KingSq(b, 1-c) \notin KingAtt[KingSq(b, c)]
     /\ LET zb == ZbOf(p) IN CalcCheckersPins(zb, 1-c).chk = {} /\ Cardinality(CalcCheckersPins(zb, c).chk) < 3
StageRights(p) == RightsBacked(p)
StageEp(p) == p.ep = -1 \/
  ( /\ EpBacked(p)
    /\ LET c == p.stm  ks == KingSq(p.b, c)  them == 1 - c  zb == ZbOf(p)
           src == SqOf(p.ep, IF them = 0 THEN 1 ELSE 6)  pawn == SqOf(p.ep, IF them = 0 THEN 3 ELSE 4)
       IN \A ch \in CalcCheckersPins(zb, c).chk : ch = pawn \/ src \in Between(ch, ks) )
ImplStage(p) ==
  IF ~StageBoard(p) THEN "InvalidBoard"
  ELSE IF ~StageRights(p) THEN "InvalidCastlingRights"
  ELSE IF ~StageEp(p) THEN "InvalidEnPassant"
  ELSE IF p.hmc > 100 THEN "InvalidHalfMoveClock"
  ELSE IF p.fmn = 0 THEN "InvalidFullmoveNumber"
  ELSE "ok"
\* a board as a constructor hands it out
BoardOf(p) == LET zb == ZbOf(p)  cp == CalcCheckersPins(zb, p.stm) IN
              [zb |-> zb, chk |-> cp.chk, pin |-> cp.pin, hmc |-> p.hmc, fmn |-> p.fmn]
=============================================================================
