SPECIFICATION Spec
INVARIANT LegalArray
INVARIANT Distinct
INVARIANT MatchesTable
INVARIANT PairsSound
INVARIANT Sample
CHECK_DEADLOCK FALSE
