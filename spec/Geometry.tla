------------------------------ MODULE Geometry ------------------------------
(***************************************************************************)
(* Board geometry of cozy-chess as plain coordinate arithmetic.            *)
(* Squares are 0..63, file = s % 8, rank = s \div 8 (the implementation's  *)
(* `Square as usize`).  Everything else in the specification is built on   *)
(* the operators of this module; C05 and C19 compare the implementation's  *)
(* lookup tables and coordinate functions with them directly.              *)
(***************************************************************************)
EXTENDS Integers, Sequences, FiniteSets, TLC

Sq == 0..63
FileOf(s) == s % 8
RankOf(s) == s \div 8
SqOf(f, r) == r * 8 + f
OnBoard(f, r) == f >= 0 /\ f <= 7 /\ r >= 0 /\ r <= 7

AbsV(x) == IF x < 0 THEN -x ELSE x
SgnV(x) == IF x > 0 THEN 1 ELSE IF x < 0 THEN -1 ELSE 0
MaxV(x, y) == IF x > y THEN x ELSE y
MinV(x, y) == IF x < y THEN x ELSE y
MinOf(S) == CHOOSE x \in S : \A y \in S : x <= y
MaxOf(S) == CHOOSE x \in S : \A y \in S : x >= y
SetOfSeq(q) == {q[i] : i \in 1..Len(q)}
RECURSIVE SeqOfSet(_)
SeqOfSet(S) == IF S = {} THEN <<>> ELSE LET x == MinOf(S) IN <<x>> \o SeqOfSet(S \ {x})

(* ---- coordinates (C19) ---- *)
FlipFile(s) == SqOf(7 - FileOf(s), RankOf(s))
FlipRank(s) == SqOf(FileOf(s), 7 - RankOf(s))
SqRelativeTo(s, c) == IF c = 0 THEN s ELSE FlipRank(s)
RankRelativeTo(r, c) == IF c = 0 THEN r ELSE 7 - r
\* -1 stands for "none"
TryOffset(s, df, dr) == LET f == FileOf(s) + df  r == RankOf(s) + dr
                        IN IF OnBoard(f, r) THEN SqOf(f, r) ELSE -1

(* ---- rays and leapers ---- *)
\* directions 1..4 orthogonal, 5..8 diagonal
Dirs == << <<1,0>>, <<-1,0>>, <<0,1>>, <<0,-1>>, <<1,1>>, <<1,-1>>, <<-1,1>>, <<-1,-1>> >>
RookDs == 1..4
BishopDs == 5..8
QueenDs == 1..8
RECURSIVE RayFrom(_,_,_,_)
RayFrom(f, r, df, dr) == IF OnBoard(f+df, r+dr)
                         THEN <<SqOf(f+df, r+dr)>> \o RayFrom(f+df, r+dr, df, dr) ELSE <<>>
\* Rays[s][d]: the squares leaving s in direction d, nearest first
Rays == [s \in Sq |-> [d \in 1..8 |-> RayFrom(FileOf(s), RankOf(s), Dirs[d][1], Dirs[d][2])]]
RaySet == [s \in Sq |-> [d \in 1..8 |-> SetOfSeq(Rays[s][d])]]
RookRays == [s \in Sq |-> UNION {RaySet[s][d] : d \in RookDs}]       \* empty-board rook attacks
BishopRays == [s \in Sq |-> UNION {RaySet[s][d] : d \in BishopDs}]   \* empty-board bishop attacks

KnightD == {<<1,2>>,<<2,1>>,<<2,-1>>,<<1,-2>>,<<-1,-2>>,<<-2,-1>>,<<-2,1>>,<<-1,2>>}
KingD == {<<1,0>>,<<-1,0>>,<<0,1>>,<<0,-1>>,<<1,1>>,<<1,-1>>,<<-1,1>>,<<-1,-1>>}
Leap(s, D) == {SqOf(FileOf(s)+d[1], RankOf(s)+d[2]) :
                 d \in {e \in D : OnBoard(FileOf(s)+e[1], RankOf(s)+e[2])}}
KnightAtt == [s \in Sq |-> Leap(s, KnightD)]
KingAtt == [s \in Sq |-> Leap(s, KingD)]
\* squares attacked by a pawn of colour c standing on s
PawnAtt == [c \in 0..1 |-> [s \in Sq |->
              Leap(s, IF c = 0 THEN {<<1,1>>,<<-1,1>>} ELSE {<<1,-1>>,<<-1,-1>>})]]
Fwd(c) == IF c = 0 THEN 1 ELSE -1
PromoRank(c) == IF c = 0 THEN 7 ELSE 0
BackRank(c) == IF c = 0 THEN 0 ELSE 7
PawnStartRank(c) == IF c = 0 THEN 1 ELSE 6

(* ---- alignment ---- *)
Aligned(a, z) == LET df == FileOf(z) - FileOf(a)  dr == RankOf(z) - RankOf(a)
                 IN a # z /\ (df = 0 \/ dr = 0 \/ AbsV(df) = AbsV(dr))
\* squares strictly between two aligned squares, {} otherwise
BetweenDef(a, z) ==
  LET df == FileOf(z) - FileOf(a)  dr == RankOf(z) - RankOf(a)
      n == MaxV(AbsV(df), AbsV(dr))
  IN IF ~Aligned(a, z) THEN {}
     ELSE {SqOf(FileOf(a) + i*SgnV(df), RankOf(a) + i*SgnV(dr)) : i \in 1..(n-1)}
\* the full line (edge to edge, both end squares included) through two aligned squares
LineDef(a, z) ==
  LET df == FileOf(z) - FileOf(a)  dr == RankOf(z) - RankOf(a)
  IN IF ~Aligned(a, z) THEN {}
     ELSE {s \in Sq : (FileOf(s) - FileOf(a)) * dr = (RankOf(s) - RankOf(a)) * df}
BetweenT == [a \in Sq |-> [z \in Sq |-> BetweenDef(a, z)]]
LineT == [a \in Sq |-> [z \in Sq |-> LineDef(a, z)]]
Between(a, z) == BetweenT[a][z]
Line(a, z) == LineT[a][z]

(* ---- slider attacks over an occupancy set ---- *)
\* definition 1: walk each ray up to and including the first occupied square
ReachOcc(occ, ray) == {ray[i] : i \in {i \in 1..Len(ray) : \A j \in 1..(i-1) : ray[j] \notin occ}}
SliderAttOcc(occ, s, ds) == UNION {ReachOcc(occ, Rays[s][d]) : d \in ds}
RookAttOcc(occ, s) == SliderAttOcc(occ, s, RookDs)
BishopAttOcc(occ, s) == SliderAttOcc(occ, s, BishopDs)
\* definition 2 (independent): aligned on a line of the right kind and nothing strictly between
RookAtt2(occ, s) == {t \in RookRays[s] : Between(s, t) \cap occ = {}}
BishopAtt2(occ, s) == {t \in BishopRays[s] : Between(s, t) \cap occ = {}}

\* the occupancy bits that can influence the attack set (edges and the square itself cannot)
RookRelevant(s) ==
  {t \in RookRays[s] : /\ (FileOf(t) = FileOf(s) => RankOf(t) \in 1..6)
                        /\ (RankOf(t) = RankOf(s) => FileOf(t) \in 1..6)}
BishopRelevant(s) == {t \in BishopRays[s] : FileOf(t) \in 1..6 /\ RankOf(t) \in 1..6}

\* pawn pushes (not captures) on an occupancy
PawnQuiets(s, c, occ) ==
  LET f == FileOf(s)  r == RankOf(s)
      one == SqOf(f, r + Fwd(c))  two == SqOf(f, r + 2*Fwd(c))
  IN IF OnBoard(f, r + Fwd(c)) /\ one \notin occ
     THEN {one} \cup (IF r = PawnStartRank(c) /\ two \notin occ THEN {two} ELSE {})
     ELSE {}

(* ---- named sets of squares (BitBoard constants, File/Rank bitboards) ---- *)
FileSet(f) == {s \in Sq : FileOf(s) = f}
RankSet(r) == {s \in Sq : RankOf(s) = r}
AdjacentFiles(f) == {s \in Sq : AbsV(FileOf(s) - f) = 1}
Edges == {s \in Sq : FileOf(s) \in {0,7} \/ RankOf(s) \in {0,7}}
Corners == {0, 7, 56, 63}
DarkSquares == {s \in Sq : (FileOf(s) + RankOf(s)) % 2 = 0}
LightSquares == Sq \ DarkSquares
=============================================================================
