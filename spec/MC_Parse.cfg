SPECIFICATION Spec
INVARIANT ClausesHold
INVARIANT CanonicalAccepted
INVARIANT Sample
CHECK_DEADLOCK FALSE
