------------------------------ MODULE ImplParse ------------------------------
(***************************************************************************)
(* L2 for the text constructors: Board::from_fen and FromStr transcribed   *)
(* stage by stage from parse.rs (field order, what each field parser       *)
(* accepts, when each validation step runs, which error each step maps     *)
(* to), on code points.  The result is total: ok with the state, or the    *)
(* error kind.  Used (a) in Mode A: the model itself must satisfy clauses  *)
(* S, F, E of C08 over an exhaustive corruption space (MC_Parse), and must *)
(* read back every canonical record (Chess.tla); (b) in Mode B as a strict *)
(* conformance oracle reported under EXT (it predicts more than the        *)
(* properties state, so it is never a property verdict).                   *)
(***************************************************************************)
EXTENDS Impl, TextParse

Err(k) == [k |-> "err", err |-> k]
\* parse_board: exactly eight rows; digits 0-9 add to the file counter, piece letters need a file < 8; each row ends at 8
RECURSIVE RowImpl(_,_,_,_)
RowImpl(row, i, file, acc) ==          \* acc: sequence of <<file, piece code>>; returns <<ok, acc>>
  IF i > Len(row) THEN <<file = 8, acc>>
  ELSE IF IsDigit(row[i]) THEN RowImpl(row, i + 1, file + (row[i] - 48), acc)
  ELSE IF PieceOfCp(row[i]) = 0 \/ file > 7 THEN <<FALSE, acc>>
  ELSE RowImpl(row, i + 1, file + 1, Append(acc, <<file, PieceOfCp(row[i])>>))
BoardImpl(f1) ==
  LET rows == Split(f1, 47) IN
  IF Len(rows) # 8 THEN [ok |-> FALSE]
  ELSE LET rr == [r \in 1..8 |-> RowImpl(rows[r], 1, 0, <<>>)] IN
       IF \E r \in 1..8 : ~rr[r][1] THEN [ok |-> FALSE]
       ELSE [ok |-> TRUE,
             b |-> [s \in Sq |-> LET q == rr[8 - RankOf(s)][2]
                                     hit == {j \in 1..Len(q) : q[j][1] = FileOf(s)}
                                 IN IF hit = {} THEN 0 ELSE q[CHOOSE j \in hit : TRUE][2]]]
\* u8 / u16 from_str: optional '+', at least one digit, value within the type
NumImpl(s, max) == LET v == NumValue(s) IN IF v = -1 \/ v > max THEN -1 ELSE v
\* parse_castle_rights: letters processed left to right; colour by case; duplicates of a (colour, wing) are errors
RECURSIVE CrImpl(_,_,_,_,_)
CrImpl(cf, i, b, shredder, cr) ==        \* returns <<ok, cr>>
  IF i > Len(cf) THEN <<TRUE, cr>> ELSE
  LET c == cf[i]
      color == IF c >= 65 /\ c <= 90 THEN 0 ELSE 1
      lower == IF c >= 65 /\ c <= 90 THEN c + 32 ELSE c
      kf == FileOf(KingSq(b, color))
      file == IF shredder THEN (IF lower >= 97 /\ lower <= 104 THEN lower - 97 ELSE -1)
              ELSE (IF lower = 107 THEN 7 ELSE IF lower = 113 THEN 0 ELSE -1)
      short == IF shredder THEN kf < file ELSE lower = 107
      idx == 2 * color + (IF short THEN 1 ELSE 2)
  IN IF file = -1 \/ cr[idx] # -1 THEN <<FALSE, cr>>
     ELSE CrImpl(cf, i + 1, b, shredder, [cr EXCEPT ![idx] = file])

FromFenImpl(cp, shredder) ==
  LET f == Fields(cp)  n == Len(f) IN
  \* (split(' ') always yields at least one field)
  LET bd == BoardImpl(f[1]) IN
  IF ~bd.ok THEN Err("InvalidBoard")
  ELSE IF n < 2 THEN Err("MissingField")
  ELSE IF ~(f[2] = <<119>> \/ f[2] = <<98>>) THEN Err("InvalidSideToMove")
  ELSE LET stm == IF f[2] = <<119>> THEN 0 ELSE 1
           p0 == [b |-> bd.b, stm |-> stm, cr |-> <<-1,-1,-1,-1>>, ep |-> -1, hmc |-> 0, fmn |-> 1]
       IN IF ~StageBoard(p0) THEN Err("InvalidBoard")
       ELSE IF n < 3 THEN Err("MissingField")
       ELSE LET crr == IF f[3] = <<45>> THEN <<TRUE, p0.cr>> ELSE IF Len(f[3]) = 0 THEN <<FALSE, p0.cr>>
                       ELSE CrImpl(f[3], 1, bd.b, shredder, p0.cr)
                p1 == [p0 EXCEPT !.cr = crr[2]]
            IN IF ~crr[1] \/ ~StageRights(p1) THEN Err("InvalidCastlingRights")
            ELSE IF n < 4 THEN Err("MissingField")
            ELSE LET e == f[4]
                     epOk == e = <<45>> \/ (EpWellFormed(e) /\ e[2] - 49 = (IF stm = 0 THEN 5 ELSE 2))
                     p2 == [p1 EXCEPT !.ep = IF e = <<45>> \/ ~epOk THEN -1 ELSE e[1] - 97]
                 IN IF ~epOk \/ ~StageEp(p2) THEN Err("InvalidEnPassant")
                 ELSE IF n < 5 THEN Err("MissingField")
                 ELSE LET h == NumImpl(f[5], 255) IN
                      IF h = -1 \/ h > 100 THEN Err("InvalidHalfMoveClock")
                      ELSE IF n < 6 THEN Err("MissingField")
                      ELSE LET m == NumImpl(f[6], 65535) IN
                           IF m = -1 \/ m = 0 THEN Err("InvalidFullmoveNumber")
                           ELSE IF n > 6 THEN Err("TooManyFields")
                           ELSE [k |-> "ok", pos |-> [p2 EXCEPT !.hmc = h, !.fmn = m]]
FromStrImpl(cp) == LET r == FromFenImpl(cp, FALSE) IN
                   IF r.k = "err" /\ r.err = "InvalidCastlingRights" THEN FromFenImpl(cp, TRUE) ELSE r
\* BoardBuilder::build: add_board, add_castle_rights, add_en_passant (rank test, then validation), clocks
BuildImpl(bs) ==
  LET p0 == [b |-> bs.b, stm |-> bs.stm, cr |-> <<-1,-1,-1,-1>>, ep |-> -1, hmc |-> 0, fmn |-> 1] IN
  IF ~StageBoard(p0) THEN Err("InvalidBoard")
  ELSE LET p1 == [p0 EXCEPT !.cr = bs.cr] IN
       IF ~StageRights(p1) THEN Err("InvalidCastlingRights")
       ELSE LET rankOk == bs.epsq = -1 \/ RankOf(bs.epsq) = (IF bs.stm = 0 THEN 5 ELSE 2)
                p2 == [p1 EXCEPT !.ep = IF bs.epsq = -1 \/ ~rankOk THEN -1 ELSE FileOf(bs.epsq)]
            IN IF ~rankOk \/ ~StageEp(p2) THEN Err("InvalidEnPassant")
               ELSE IF bs.hmc > 100 THEN Err("InvalidHalfMoveClock")
               ELSE IF bs.fmn = 0 THEN Err("InvalidFullmoveNumber")
               ELSE [k |-> "ok", pos |-> [p2 EXCEPT !.hmc = bs.hmc, !.fmn = bs.fmn]]
ParseImpl(cp, mode) == IF mode = 0 THEN FromFenImpl(cp, FALSE) ELSE IF mode = 1 THEN FromFenImpl(cp, TRUE) ELSE FromStrImpl(cp)
=============================================================================
