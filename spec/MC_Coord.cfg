SPECIFICATION Spec
INVARIANT OffsetTotalAndExact
INVARIANT SweepIsSixtyFour
INVARIANT Sample
CHECK_DEADLOCK FALSE
