------------------------------- MODULE Rules -------------------------------
(***************************************************************************)
(* L1: the rules of chess / Chess960 written as definitions.               *)
(* Legality is make-and-test (play the pseudo-legal move on the placement, *)
(* ask whether the mover's king is attacked), deliberately unlike the      *)
(* code's pin-mask / check-mask method.  Moves are <<from, to, promo>>,    *)
(* promo = 0 or a kind 2..5; castling is king-takes-own-rook.              *)
(***************************************************************************)
EXTENDS Position

MoveValues == {<<s, t, k>> : s \in Sq, t \in Sq, k \in 0..6}    \* every conceivable move value

(* ---- pseudo-legal moves ---- *)
EpSquare(p) == SqOf(p.ep, IF p.stm = 0 THEN 5 ELSE 2)           \* only meaningful when p.ep # -1
PawnMoves(p, s) ==
  LET b == p.b  c == p.stm
      quiet == PawnQuiets(s, c, Occ(b))
      caps == {t \in PawnAtt[c][s] : ColorOf(b[t]) = 1 - c}
      \* en passant: onto the square the enemy pawn passed, and only if that pawn stands beside (the definition is kept
      \* meaningful on states whose ep file is not backed, which a sound library never hands out)
      epc == IF p.ep = -1 \/ b[EpSquare(p)] # 0 \/ b[SqOf(p.ep, IF c = 0 THEN 4 ELSE 3)] # Mk(1 - c, PAWN) THEN {}
             ELSE {t \in PawnAtt[c][s] : t = EpSquare(p)}
      tos == quiet \cup caps \cup epc
  IN UNION {IF RankOf(t) = PromoRank(c) THEN {<<s,t,k>> : k \in 2..5} ELSE {<<s,t,0>>} : t \in tos}

PieceMovesPL(p, s) ==
  LET b == p.b  c == p.stm  k == KindOf(b[s])
      tos == CASE k = KNIGHT -> KnightAtt[s]
               [] k = BISHOP -> SliderAtt(b, s, BishopDs)
               [] k = ROOK -> SliderAtt(b, s, RookDs)
               [] k = QUEEN -> SliderAtt(b, s, QueenDs)
               [] k = KING -> KingAtt[s]
  IN {<<s,t,0>> : t \in {t \in tos : ColorOf(b[t]) # c}}

PseudoLegal(p) ==
  UNION {IF KindOf(p.b[s]) = PAWN THEN PawnMoves(p, s) ELSE PieceMovesPL(p, s) : s \in Own(p.b, p.stm)}

\* apply a non-castling move to the placement only
IsEpCapture(p, m) == KindOf(p.b[m[1]]) = PAWN /\ FileOf(m[1]) # FileOf(m[2]) /\ p.b[m[2]] = 0
MakeB(p, m) ==
  LET b == p.b  c == p.stm  s == m[1]  t == m[2]
      b1 == [b EXCEPT ![s] = 0, ![t] = IF m[3] # 0 THEN Mk(c, m[3]) ELSE b[s]]
  IN IF IsEpCapture(p, m) THEN [b1 EXCEPT ![SqOf(FileOf(t), RankOf(s))] = 0] ELSE b1

(* ---- castling by the Chess960 rules text ---- *)
\* idx = 2*c+1 (short, king to g, rook to f) or 2*c+2 (long, king to c, rook to d)
CastleAfter(b, c, ks, rs, kd, rd) ==
  LET b0 == [b EXCEPT ![ks] = 0, ![rs] = 0] IN [b0 EXCEPT ![kd] = Mk(c, KING), ![rd] = Mk(c, ROOK)]
CastleOne(p, idx, kf, rf) ==
  LET b == p.b  c == p.stm  o == 1 - c  br == BackRank(c)  rfile == p.cr[idx] IN
  IF rfile = -1 THEN {} ELSE
  LET ks == KingSq(b, c)  rs == SqOf(rfile, br)  kd == SqOf(kf, br)  rd == SqOf(rf, br)
      kpath == Between(ks, kd) \cup {kd}
      rpath == Between(rs, rd) \cup {rd}
      b0 == [b EXCEPT ![ks] = 0, ![rs] = 0]
  IN IF /\ RankOf(ks) = br /\ b[rs] = Mk(c, ROOK)         \* the right is backed: king at home rank, own rook on the named file
        /\ (IF idx % 2 = 1 THEN FileOf(ks) < rfile ELSE rfile < FileOf(ks))
        /\ \A e \in kpath \cup rpath : b0[e] = 0          \* vacant except for the two castling pieces
        /\ ~Attacked(b, ks, o)                             \* not out of check
        /\ \A e \in kpath : ~Attacked(b, e, o)             \* not through or into an attacked square
        /\ ~Attacked(CastleAfter(b, c, ks, rs, kd, rd), kd, o)   \* not in check once both have moved
     THEN {<<ks, rs, 0>>} ELSE {}
CastleMoves(p) == LET c == p.stm IN CastleOne(p, 2*c+1, 6, 5) \cup CastleOne(p, 2*c+2, 2, 3)

Legal(p) ==
  LET c == p.stm  ks == KingSq(p.b, c) IN
  {m \in PseudoLegal(p) : LET nb == MakeB(p, m) IN ~Attacked(nb, IF m[1] = ks THEN m[2] ELSE ks, 1-c)} \cup CastleMoves(p)

(* ---- the complete successor ---- *)
IsCastle(p, m) == ColorOf(p.b[m[2]]) = p.stm
IsCapture(p, m) == ~IsCastle(p, m) /\ (p.b[m[2]] # 0 \/ IsEpCapture(p, m))
Make(p, m) ==
  LET b == p.b  c == p.stm  o == 1 - c  s == m[1]  t == m[2]  k == KindOf(b[s])
      br == BackRank(c)  tbr == BackRank(o)
      castle == IsCastle(p, m)
      short == FileOf(s) < FileOf(t)
      nb == IF castle
            THEN CastleAfter(b, c, s, t, SqOf(IF short THEN 6 ELSE 2, br), SqOf(IF short THEN 5 ELSE 3, br))
            ELSE MakeB(p, m)
      capture == IsCapture(p, m)
      \* the mover loses both rights by a king move or castling, one right when its rook leaves the right's square
      ownR(i) == IF castle \/ k = KING THEN -1
                 ELSE IF k = ROOK /\ RankOf(s) = br /\ FileOf(s) = p.cr[i] THEN -1 ELSE p.cr[i]
      \* the opponent loses a right when something is captured on that right's rook square
      oppR(i) == IF ~castle /\ b[t] # 0 /\ RankOf(t) = tbr /\ FileOf(t) = p.cr[i] THEN -1 ELSE p.cr[i]
      ncr == IF c = 0 THEN <<ownR(1), ownR(2), oppR(3), oppR(4)>> ELSE <<oppR(1), oppR(2), ownR(3), ownR(4)>>
      dbl == k = PAWN /\ AbsV(RankOf(t) - RankOf(s)) = 2
      nh == IF k = PAWN \/ capture THEN 0 ELSE MinV(p.hmc + 1, 100)
      nf == IF c = 1 THEN MinV(p.fmn + 1, 65535) ELSE p.fmn
  IN [b |-> nb, stm |-> o, cr |-> ncr, ep |-> IF dbl THEN FileOf(s) ELSE -1, hmc |-> nh, fmn |-> nf]

(* ---- null move (C14) ---- *)
NullOk(p) == ~InCheck(p)
NullMake(p) == [p EXCEPT !.stm = 1 - @, !.ep = -1, !.hmc = MinV(@ + 1, 100),
                         !.fmn = IF p.stm = 1 THEN MinV(@ + 1, 65535) ELSE @]

(* ---- game status (C12) ---- *)
Status(p) == LET none == Legal(p) = {} IN
  IF none THEN (IF InCheck(p) THEN "won" ELSE "drawn")
  ELSE IF p.hmc >= 100 THEN "drawn" ELSE "ongoing"

(* ---- FIDE position identity (C13) ---- *)
\* the ep file if some PAWN has a legal ep capture, else none
EffEp(p) == IF p.ep # -1 /\ \E m \in Legal(p) : KindOf(p.b[m[1]]) = PAWN /\ m[2] = EpSquare(p)
                                                  /\ FileOf(m[1]) # FileOf(m[2])
            THEN p.ep ELSE -1
SamePos(p, q) == p.b = q.b /\ p.stm = q.stm /\ p.cr = q.cr /\ EffEp(p) = EffEp(q)

(* ---- transition classes (coverage accounting, vacuity guard) ---- *)
Class(p, m) ==
  LET b == p.b  c == p.stm  s == m[1]  t == m[2]  k == KindOf(b[s])  n == Make(p, m) IN
  (IF IsCastle(p, m) THEN {IF FileOf(s) < FileOf(t) THEN "castle-short" ELSE "castle-long"}
                          \cup (IF FileOf(s) # 4 \/ FileOf(t) \notin {0,7} THEN {"castle-960"} ELSE {})
                          \cup (IF s = SqOf(IF FileOf(s) < FileOf(t) THEN 6 ELSE 2, RankOf(s)) THEN {"castle-king-stays"} ELSE {})
                          \cup (IF t = SqOf(IF FileOf(s) < FileOf(t) THEN 5 ELSE 3, RankOf(s)) THEN {"castle-rook-stays"} ELSE {})
   ELSE IF IsEpCapture(p, m) THEN {"ep-capture"}
   ELSE IF b[t] # 0 THEN {"capture"} ELSE {"quiet"})
  \cup (IF m[3] # 0 THEN {"promotion"} ELSE {})
  \cup (IF m[3] # 0 /\ b[t] # 0 THEN {"promotion-capture"} ELSE {})
  \cup (IF n.ep # -1 THEN {"double-push"} ELSE {})
  \cup (IF \E i \in 1..4 : p.cr[i] # n.cr[i] THEN
          (IF IsCastle(p, m) THEN {} ELSE
           IF k = KING THEN {"rights-lost-king-move"} ELSE {})
          \cup (IF k = ROOK /\ \E i \in {2*c+1, 2*c+2} : p.cr[i] # n.cr[i] THEN {"rights-lost-rook-move"} ELSE {})
          \cup (IF \E i \in {2*(1-c)+1, 2*(1-c)+2} : p.cr[i] # n.cr[i] THEN {"rights-lost-capture"} ELSE {})
        ELSE {})
  \cup (IF p.hmc = 100 /\ n.hmc = 100 THEN {"hmc-saturated"} ELSE {})
  \cup (IF p.fmn = 65535 /\ c = 1 THEN {"fmn-saturated"} ELSE {})
  \cup (IF InCheck(n) THEN {"gives-check"} ELSE {})
  \cup (IF InCheck(p) THEN {"evades-check"} ELSE {})
=============================================================================
