---------------------------- MODULE Trace_Values ----------------------------
(***************************************************************************)
(* Trace specification for the value types: BitBoard (C18), PieceMoves     *)
(* (C17), coordinates and their text forms (C19), attack and geometry      *)
(* lookups (C05).  Every event is one or more calls of the real library    *)
(* with arguments and results; TLC compares each result with the           *)
(* definition.  Same reporting convention as Trace_Board.                  *)
(***************************************************************************)
EXTENDS Containers, Text, Coord, Json, IOUtils

Recs == ndJsonDeserialize(IOEnv.TRACE)
NRecs == Len(Recs)
VARIABLES l, nviol
vars == <<l, nviol>>
IF_(c, S) == IF c THEN S ELSE {}
S_(q) == SetOfSeq(q)
IsEvent(e) == l <= NRecs /\ Recs[l].ev = e /\ l' = l + 1
Rep(ms) == IF ms = {} THEN TRUE ELSE PrintT(<<"MISMATCH", l, ms>>)
Obs(ms) == Rep(ms) /\ nviol' = nviol + Cardinality(ms)
\* a guarded bitboard result {k, v} must be ok and denote the set
Is(x, S) == x.k = "ok" /\ S_(x.v) = S
B(c) == IF c THEN 1 ELSE 0

\* the standard adaptors on an iterator whose plain iteration is `seq`: nth(n) and what follows it, the exact length after it
\* (where promised), count, last, skip(n), step_by(n + 1).  Any deviation means iteration through the adaptor yields other items.
AdBad(ad, seq, exact) ==
  LET n == ad.n  L == Len(seq) IN
  IF ad.k # "ok" THEN {"adaptor-panicked"} ELSE
       IF_(ad.nth # (IF n < L THEN <<seq[n + 1]>> ELSE <<>>), {"nth"})
  \cup IF_(ad.rest # SubSeq(seq, n + 2, L), {"items-after-nth"})
  \cup IF_(exact /\ ad.len # (IF n < L THEN L - n - 1 ELSE 0), {"len-after-nth"})
  \cup IF_(~ad.hint, {"size-hint-after-nth"})
  \cup IF_(ad.count # L, {"count"})
  \cup IF_(ad.last # (IF L = 0 THEN <<>> ELSE <<seq[L]>>), {"last"})
  \cup IF_(ad.skip # SubSeq(seq, n + 1, L), {"skip"})
  \cup IF_(ad.step # [k \in 1..((L + n) \div (n + 1)) |-> seq[1 + (k - 1) * (n + 1)]], {"step_by"})

(* ------------------------------- BitBoard ------------------------------- *)
TraceBBOp == /\ IsEvent("bb_op")
  /\ LET r == Recs[l]  A == S_(r.a)  Bb == S_(r.b)
         bad == IF_(~Is(r.or, A \cup Bb), {"or"}) \cup IF_(~Is(r.and, A \cap Bb), {"and"})
                \cup IF_(~Is(r.xor, (A \ Bb) \cup (Bb \ A)), {"xor"}) \cup IF_(~Is(r.sub, A \ Bb), {"sub"})
                \cup IF_(~Is(r.not, Sq \ A), {"not"})
                \cup IF_(~Is(r.or_as, A \cup Bb), {"or-assign"}) \cup IF_(~Is(r.and_as, A \cap Bb), {"and-assign"})
                \cup IF_(~Is(r.xor_as, (A \ Bb) \cup (Bb \ A)), {"xor-assign"}) \cup IF_(~Is(r.sub_as, A \ Bb), {"sub-assign"})
                \cup IF_(S_(r.has) # A, {"has"})
                \cup IF_(r.subset # B(A \subseteq Bb), {"is_subset"}) \cup IF_(r.superset # B(Bb \subseteq A), {"is_superset"})
                \cup IF_(r.disjoint # B(A \cap Bb = {}), {"is_disjoint"}) \cup IF_(r.empty # B(A = {}), {"is_empty"})
                \cup IF_(r.len # Cardinality(A), {"len"}) \cup IF_(~Is(r.collect, A), {"collect"})
                \cup IF_(~Is(r.flip_r, BBFlipRanks(A)), {"flip_ranks"}) \cup IF_(~Is(r.flip_f, BBFlipFiles(A)), {"flip_files"})
                \cup IF_(~Is(r.flip_rr, A), {"flip_ranks-involution"}) \cup IF_(~Is(r.flip_ff, A), {"flip_files-involution"})
                \cup IF_(r.next # (IF A = {} THEN -1 ELSE MinOf(A)), {"next_square"})
                \cup IF_(r.eq # B(A = Bb), {"eq"})
                \cup IF_(r.from_sq.k # "ok" \/ Len(r.from_sq.v) # 1, {"from-square"})
     IN Obs(IF_(bad # {}, {<<"C18", "bitboard-operation", bad, r.a, r.b>>}))

TraceBBIter == /\ IsEvent("bb_iter")
  /\ LET r == Recs[l]  A == S_(r.a)  n == Cardinality(A)
     IN Obs(IF_(r.k # "ok", {<<"C18", "iteration-panicked", r.a>>})
            \cup IF_(r.k = "ok" /\ r.seq # BBIterSeq(A), {<<"C18", "iteration-order", r.a, r.seq>>})
            \cup IF_(r.k = "ok" /\ r.into # BBIterSeq(A), {<<"C18", "into-iter", r.a, r.into>>})
            \cup IF_(r.k = "ok" /\ (Len(r.lens) # n + 1 \/ \E i \in 1..Len(r.lens) : r.lens[i] # n + 1 - i), {<<"C18", "iteration-remaining-length", r.a, r.lens>>})
            \cup IF_(r.k = "ok" /\ ~r.hints, {<<"C18", "iteration-size-hint", r.a>>})
            \cup LET bad == AdBad(r.ad, BBIterSeq(A), TRUE) IN IF_(bad # {}, {<<"C18", "iteration-through-adaptor", bad, r.a, r.ad.n>>}))

TraceBBSubsets == /\ IsEvent("bb_subsets")
  /\ LET r == Recs[l]  A == S_(r.a)  subs == [i \in 1..Len(r.subs) |-> S_(r.subs[i])]
     IN Obs(IF_(r.k # "ok", {<<"C18", "subsets-panicked", r.a>>})
            \cup IF_(r.k = "ok" /\ {subs[i] : i \in 1..Len(subs)} # SUBSET A, {<<"C18", "subsets-not-all-subsets", r.a, Len(subs)>>})
            \cup IF_(r.k = "ok" /\ Len(subs) # 2^Cardinality(A), {<<"C18", "subsets-count", r.a, Len(subs)>>})
            \cup IF_(r.k = "ok" /\ \E i \in 1..(Len(subs)-1) : ~BBLess(subs[i], subs[i+1]), {<<"C18", "subsets-order", r.a>>})
            \cup LET bad == IF r.k = "ok" THEN AdBad(r.ad, r.subs, FALSE) ELSE {} IN IF_(bad # {}, {<<"C18", "subsets-through-adaptor", bad, r.a, r.ad.n>>}))

\* the first subsets of a mask too large to enumerate: the k-th subset in numeric order deposits the bits of k-1 into the mask
NthSubset(A, k) == LET q == SeqOfSet(A) IN {q[i] : i \in {i \in 1..Len(q) : i <= 20 /\ ((k - 1) \div (2 ^ (i - 1))) % 2 = 1}}
TraceBBSubsetsHead == /\ IsEvent("bb_subsets_head")
  /\ LET r == Recs[l]  A == S_(r.a)  want == IF Cardinality(A) >= 7 THEN 70 ELSE 2 ^ Cardinality(A)
     IN Obs(IF_(r.k # "ok", {<<"C18", "subsets-panicked", r.a>>})
            \cup IF_(r.k = "ok" /\ (Len(r.head) # want \/ \E i \in 1..Len(r.head) : S_(r.head[i]) # NthSubset(A, i)),
                     {<<"C18", "subsets-of-a-large-mask", r.a, Len(r.head)>>}))

\* Debug text, as code points: `{:#?}` draws the board (rank 8 first, files a..h, " X" / " ."), `{:?}` is BitBoard(0x................)
RECURSIVE CatAll(_, _)
CatAll(qs, i) == IF i > Len(qs) THEN <<>> ELSE qs[i] \o CatAll(qs, i + 1)
BBPrettyCps(A) ==
  LET row(k) == <<10, 32, 32, 32>> \o CatAll([f \in 1..8 |-> <<32, IF SqOf(f - 1, k) \in A THEN 88 ELSE 46>>], 1)
  IN <<98, 105, 116, 98, 111, 97, 114, 100, 33, 32, 123>> \o CatAll([i \in 1..8 |-> row(8 - i)], 1) \o <<10, 125>>
BBHexCps(A) ==
  LET nib(i) == LET lo == 4 * (16 - i) IN B(lo \in A) + 2 * B(lo + 1 \in A) + 4 * B(lo + 2 \in A) + 8 * B(lo + 3 \in A)   \* i = 1 is the top nibble
      dig(v) == IF v < 10 THEN 48 + v ELSE 55 + v
  IN <<66, 105, 116, 66, 111, 97, 114, 100, 40, 48, 120>> \o [i \in 1..16 |-> dig(nib(i))] \o <<41>>
TraceBBFmt == /\ IsEvent("bb_fmt")
  /\ LET r == Recs[l]  A == S_(r.a)
     IN Obs(IF_(r.k # "ok", {<<"EXT", "bitboard-debug-panicked", r.a>>})
            \cup IF_(r.k = "ok" /\ r.pretty # BBPrettyCps(A), {<<"EXT", "bitboard-debug-board-text", r.a, r.pretty>>})
            \cup IF_(r.k = "ok" /\ r.hex # BBHexCps(A), {<<"EXT", "bitboard-debug-hex-text", r.a, r.hex>>}))

\* bitboard! { ... }: 64 marks, rank 8 first, files a..h; X (88) is a member
TraceBBMacro == /\ IsEvent("bb_macro")
  /\ LET r == Recs[l]  d == r.drawing
         den == {SqOf((i - 1) % 8, 7 - ((i - 1) \div 8)) : i \in {i \in 1..Len(d) : d[i] = 88}}
     IN Obs(IF_(Len(d) # 64 \/ S_(r.v) # den, {<<"EXT", "bitboard-macro", d, r.v>>}))

TraceBBConst == /\ IsEvent("bb_const")
  /\ LET r == Recs[l]
         bad == IF_(S_(r.empty) # {}, {"EMPTY"}) \cup IF_(S_(r.full) # Sq, {"FULL"}) \cup IF_(S_(r.edges) # Edges, {"EDGES"})
                \cup IF_(S_(r.corners) # Corners, {"CORNERS"}) \cup IF_(S_(r.dark) # DarkSquares, {"DARK_SQUARES"})
                \cup IF_(S_(r.light) # LightSquares, {"LIGHT_SQUARES"})
                \cup IF_(\E f \in 0..7 : S_(r.files[f+1]) # FileSet(f), {"File::bitboard"})
                \cup IF_(\E k \in 0..7 : S_(r.ranks[k+1]) # RankSet(k), {"Rank::bitboard"})
                \cup IF_(\E f \in 0..7 : S_(r.adjacent[f+1]) # AdjacentFiles(f), {"File::adjacent"})
                \cup IF_(\E f \in 0..7 : S_(r.from_files[f+1]) # FileSet(f), {"BitBoard::from(File)"})
                \cup IF_(\E k \in 0..7 : S_(r.from_ranks[k+1]) # RankSet(k), {"BitBoard::from(Rank)"})
                \cup IF_(\E q \in Sq : S_(r.from_squares[q+1]) # {q}, {"BitBoard::from(Square)"})
                \cup IF_(\E q \in Sq : S_(r.sq_bitboard[q+1]) # {q}, {"Square::bitboard"})
     IN Obs(IF_(bad # {}, {<<"EXT", "bitboard-constants", bad>>}))

(* ------------------------------ PieceMoves ------------------------------ *)
TracePM == /\ IsEvent("pm")
  /\ LET r == Recs[l]  T == S_(r.to)  exp == PMSeq(r.piece, r.from, T)  n == Len(exp)
     IN Obs(IF_(r.k # "ok" \/ r.has_panics # 0, {<<"C17", "panicked", r.piece, r.from, r.to>>})
            \* C17 fixes WHAT is yielded (every move exactly once), not the order; the order of the code is a model-conformance note
            \cup IF_(r.k = "ok" /\ (S_(r.seq) # S_(exp) \/ Len(r.seq) # n), {<<"C17", "iteration", r.piece, r.from, r.to, r.seq>>})
            \cup IF_(r.k = "ok" /\ S_(r.seq) = S_(exp) /\ Len(r.seq) = n /\ r.seq # exp, {<<"EXT", "iteration-order", r.piece, r.from, r.to, r.seq>>})
            \cup IF_(r.k = "ok" /\ r.len # n, {<<"C17", "len", r.piece, r.from, r.to, r.len, n>>})
            \cup IF_(r.k = "ok" /\ r.len # PMLen(r.piece, T), {<<"C17", "len-formula", r.len>>})
            \cup IF_(r.k = "ok" /\ r.empty # (n = 0), {<<"C17", "is_empty", r.piece, r.from, r.to, r.empty>>})
            \cup IF_(r.k = "ok" /\ (Len(r.lens) # n + 1 \/ \E i \in 1..Len(r.lens) : r.lens[i] # n + 1 - i), {<<"C17", "remaining-length", r.piece, r.from, r.to, r.lens>>})
            \cup IF_(r.k = "ok" /\ ~r.hints, {<<"C17", "size-hint", r.piece, r.from, r.to>>})
            \cup IF_(S_(r.has) # S_(exp), {<<"C17", "has", r.piece, r.from, r.to, S_(r.has) \ S_(exp), S_(exp) \ S_(r.has)>>})
            \cup LET bad == IF r.k = "ok" THEN AdBad(r.ad, r.seq, TRUE) ELSE {} IN IF_(bad # {}, {<<"C17", "iteration-through-adaptor", bad, r.piece, r.from, r.to, r.ad.n>>}))

(* ------------------------------ coordinates ------------------------------ *)
TraceSq == /\ IsEvent("sq")
  /\ LET r == Recs[l]  s == r.s
         bad == IF_(r.file # FileOf(s), {"file"}) \cup IF_(r.rank # RankOf(s), {"rank"}) \cup IF_(r.new # s, {"new"})
                \cup IF_(r.flipf # FlipFile(s), {"flip_file"}) \cup IF_(r.flipr # FlipRank(s), {"flip_rank"})
                \cup IF_(r.relw # SqRelativeTo(s, 0), {"relative_to-white"}) \cup IF_(r.relb # SqRelativeTo(s, 1), {"relative_to-black"})
                \cup IF_(~Is(r.bb, {s}), {"bitboard"}) \cup IF_(r.idx # s \/ r.try_idx # s, {"index"}) \cup IF_(r.txt # SqName(s), {"display"})
     IN Obs(IF_(bad # {}, {<<"C19", "square-function", s, bad>>}))
\* the named constants: Square::F6 is the square f6 (index, text, place in ALL), File::A..H, Rank::First..Eighth, pieces, colours
TraceNames == /\ IsEvent("names")
  /\ LET r == Recs[l]
         up(c) == IF c >= 97 /\ c <= 122 THEN c - 32 ELSE c
         sqOK(x) == /\ Len(x[1]) = 2 /\ x[2] \in Sq /\ x[1] = <<65 + FileOf(x[2]), 49 + RankOf(x[2])>>
                    /\ x[3] = <<97 + FileOf(x[2]), 49 + RankOf(x[2])>> /\ x[4] = x[2]
         flOK(x) == x[2] \in 0..7 /\ x[1] = <<65 + x[2]>> /\ x[3] = <<97 + x[2]>> /\ x[4] = x[2]
         rkNames == <<<<70, 105, 114, 115, 116>>, <<83, 101, 99, 111, 110, 100>>, <<84, 104, 105, 114, 100>>, <<70, 111, 117, 114, 116, 104>>, <<70, 105, 102, 116, 104>>, <<83, 105, 120, 116, 104>>, <<83, 101, 118, 101, 110, 116, 104>>, <<69, 105, 103, 104, 116, 104>>>>   \* First .. Eighth as code points
         pcNames == <<<<80, 97, 119, 110>>, <<75, 110, 105, 103, 104, 116>>, <<66, 105, 115, 104, 111, 112>>, <<82, 111, 111, 107>>, <<81, 117, 101, 101, 110>>, <<75, 105, 110, 103>>>>
         pcChars == <<112, 110, 98, 114, 113, 107>>
         clNames == <<<<87, 104, 105, 116, 101>>, <<66, 108, 97, 99, 107>>>>
         bad == IF_(Len(r.square) # 64 \/ \E i \in 1..Len(r.square) : ~sqOK(r.square[i]) \/ r.square[i][2] # i - 1, {"Square"})
                \cup IF_(Len(r.file) # 8 \/ \E i \in 1..Len(r.file) : ~flOK(r.file[i]) \/ r.file[i][2] # i - 1, {"File"})
                \cup IF_(Len(r.rank) # 8 \/ \E i \in 1..Len(r.rank) : r.rank[i][2] # i - 1 \/ r.rank[i][1] # rkNames[i] \/ r.rank[i][3] # <<48 + i>> \/ r.rank[i][4] # i - 1, {"Rank"})
                \cup IF_(Len(r.piece) # 6 \/ \E i \in 1..Len(r.piece) : r.piece[i][2] # i - 1 \/ r.piece[i][1] # pcNames[i] \/ r.piece[i][3] # <<pcChars[i]>> \/ r.piece[i][4] # i - 1, {"Piece"})
                \cup IF_(Len(r.color) # 2 \/ \E i \in 1..Len(r.color) : r.color[i][2] # i - 1 \/ r.color[i][1] # clNames[i] \/ r.color[i][4] # i - 1, {"Color"})
                \cup IF_(r.nums # <<64, 8, 8, 6, 2>>, {"NUM"})
     IN Obs(IF_(bad # {}, {<<"C19", "named-constants", bad>>}))
TraceSqNew == /\ IsEvent("sqnew")
  /\ LET r == Recs[l] IN Obs(IF_(\E k \in 0..7 : r.col[k+1] # SqOf(r.file, k), {<<"C19", "square-new", r.file, r.col>>}))
TraceOffs == /\ IsEvent("offs")
  /\ LET r == Recs[l]  s == r.s  R == S_(r.range)
         exp == {<<FileOf(t) - FileOf(s), RankOf(t) - RankOf(s), t>> :
                   t \in {t \in Sq : FileOf(t) - FileOf(s) \in R /\ RankOf(t) - RankOf(s) \in R}}
         got == S_(r.some)
     IN Obs(IF_(Len(r.panics) # 0, {<<"C19", "try_offset-panicked", s, Len(r.panics), r.panics[1]>>})
            \cup IF_(got # exp, {<<"C19", "try_offset", s, got \ exp, exp \ got>>})
            \cup IF_(r.tried # Cardinality(R) * Cardinality(R), {<<"C19", "offset-sweep-incomplete", s>>})
            \* the panicking variant: the square plain coordinate arithmetic gives; where that leaves the board no square is an
            \* answer that agrees with the arithmetic, so it has to panic (-1), as documented
            \cup LET expo == {<<df, dr, IF FileOf(s) + df \in 0..7 /\ RankOf(s) + dr \in 0..7 THEN SqOf(FileOf(s) + df, RankOf(s) + dr) ELSE -1>> :
                                df \in -7..7, dr \in -7..7}
               IN IF_(S_(r.off) # expo, {<<"C19", "offset", s, S_(r.off) \ expo>>})
            \cup IF_(Len(r.offset_bad) # 0, {<<"EXT", "offset-vs-try_offset", s, r.offset_bad>>}))
TraceFR == /\ IsEvent("fr")
  /\ LET r == Recs[l]
         bad == IF_(\E i \in 1..8 : r.files[i] # <<i-1, 8-i, i-1>>, {"File::flip/index"})
                \cup IF_(\E i \in 1..8 : r.ranks[i] # <<i-1, 8-i, RankRelativeTo(i-1, 0), RankRelativeTo(i-1, 1)>>, {"Rank::flip/relative_to"})
                \cup IF_(\E i \in 1..Len(r.oob) : \E j \in 2..6 : r.oob[i][j] /\ ~(j = 4 /\ r.oob[i][1] \in 0..63), {"try_index-out-of-range"})
                \cup IF_(r.not # <<1, 0>>, {"Color::not"})
     IN Obs(IF_(bad # {}, {<<"C19", "file-rank-function", bad>>}))

TraceTxt == /\ IsEvent("txt")
  /\ LET r == Recs[l]  d == Denote(r.ty, r.cp)
     IN Obs(IF_(r.k = "panic", {<<"C19", "parser-panicked", r.ty, r.cp>>})
            \cup IF_(r.k = "ok" /\ d = <<-1>>, {<<"C19", "parser-accepts-text-formatting-never-produces", r.ty, r.t, r.v>>})
            \cup IF_(r.k = "ok" /\ d # <<-1>> /\ r.v # d, {<<"C19", "parser-wrong-value", r.ty, r.t, r.v, d>>})
            \cup IF_(r.k = "ok" /\ r.fmt # r.t, {<<"C19", "accepted-text-does-not-format-back", r.ty, r.t, r.fmt>>})
            \cup IF_(r.k = "err" /\ d # <<-1>>, {<<"C19", "parser-rejects-formatted-value", r.ty, r.t>>}))

(* -------------------------------- geometry -------------------------------- *)
TraceLeap == /\ IsEvent("leap")
  /\ LET r == Recs[l]  s == r.s
         bad == IF_(~Is(r.knight, KnightAtt[s]), {"knight"}) \cup IF_(~Is(r.king, KingAtt[s]), {"king"})
                \cup IF_(~Is(r.pw, PawnAtt[0][s]), {"pawn-attacks-white"}) \cup IF_(~Is(r.pb, PawnAtt[1][s]), {"pawn-attacks-black"})
                \cup IF_(~Is(r.rr, RookRays[s]), {"rook-rays"}) \cup IF_(~Is(r.br, BishopRays[s]), {"bishop-rays"})
     IN Obs(IF_(bad # {}, {<<"C05", "leaper-or-ray-table", s, bad>>}))
TraceBL == /\ IsEvent("bl")
  /\ LET r == Recs[l]  s == r.s
         badB == {t \in Sq : ~Is(r.between[t+1], BetweenDef(s, t))}
         badL == {t \in Sq : ~Is(r.line[t+1], LineDef(s, t))}
     IN Obs(IF_(badB # {}, {<<"C05", "between", s, badB>>}) \cup IF_(badL # {}, {<<"C05", "line", s, badL>>}))
TracePQ == /\ IsEvent("pq")
  /\ LET r == Recs[l]  s == r.s
         bad == {i \in 1..Len(r.cases) : LET c == r.cases[i] IN ~Is(c[3], PawnQuiets(s, c[1], S_(c[2])))}
     IN Obs(IF_(bad # {}, {<<"C05", "pawn-quiets", s, {r.cases[i] : i \in bad}>>}))
TraceSl == /\ IsEvent("sl")
  /\ LET r == Recs[l]  s == r.s
         att(occ) == IF r.kind = 0 THEN RookAttOcc(occ, s) ELSE BishopAttOcc(occ, s)
         bad == {i \in 1..Len(r.cases) : LET c == r.cases[i]  e == att(S_(c[1])) IN ~Is(c[2], e) \/ ~Is(c[3], e)}
     IN Obs(IF_(bad # {}, {<<"C05", IF r.kind = 0 THEN "rook-attacks" ELSE "bishop-attacks", s, {r.cases[i] : i \in bad}>>}))

Init == l = 1 /\ nviol = 0
Next == \/ TraceBBOp \/ TraceBBIter \/ TraceBBSubsets \/ TraceBBSubsetsHead \/ TraceBBFmt \/ TraceBBMacro \/ TraceBBConst \/ TracePM
        \/ TraceSq \/ TraceNames \/ TraceSqNew \/ TraceOffs \/ TraceFR \/ TraceTxt
        \/ TraceLeap \/ TraceBL \/ TracePQ \/ TraceSl
Spec == Init /\ [][Next]_vars
Accepted == IF TLCGet("stats").diameter - 1 = NRecs THEN PrintT(<<"ACCEPTED-LINES", NRecs>>)
            ELSE PrintT(<<"STUCK-AT-LINE", TLCGet("stats").diameter, NRecs>>) /\ FALSE
=============================================================================
