----------------------------- MODULE Gen_Castle -----------------------------
(***************************************************************************)
(* Mode C (spec -> impl): TLC ENUMERATES castling situations and prints    *)
(* each as a canonical Shredder-FEN record; the recorder sets the real     *)
(* Board up from every record and logs generation, is_legal and the        *)
(* castling move's successor, which Trace_Board.tla then judges.           *)
(* Family 1: every king file x every rook file x every filling of the      *)
(*   other six back-rank squares with {empty, own knight, enemy rook       *)
(*   [, enemy knight]}  (vacancy of both paths, rook pinned on the back    *)
(*   rank, king in check / crossing / landing on an attacked square).      *)
(* Family 2: king and rook alone on the back rank and one enemy piece of   *)
(*   each kind on every square of the three ranks in front of it           *)
(*   (attacks on the king's path from above).                              *)
(* Both colours (the black cases are the mirror images).                   *)
(* IOEnv.GENCFG: {"kinds": 3|4, "mod": m, "rem": r} keeps the cases whose  *)
(* index hash is r modulo m (m = 1: all).                                  *)
(***************************************************************************)
EXTENDS Text, Json, IOUtils
Cfg == JsonDeserialize(IOEnv.GENCFG)

\* family 1
Fill1(kf, rf, fill) ==
  [s \in Sq |-> IF RankOf(s) = 0 THEN
                   (IF FileOf(s) = kf THEN Mk(0, KING) ELSE IF FileOf(s) = rf THEN Mk(0, ROOK)
                    ELSE CASE fill[FileOf(s)] = 0 -> 0 [] fill[FileOf(s)] = 1 -> Mk(0, KNIGHT)
                           [] fill[FileOf(s)] = 2 -> Mk(1, ROOK) [] OTHER -> Mk(1, KNIGHT))
                ELSE IF s = SqOf(IF rf = 0 THEN 7 ELSE 0, 7) THEN Mk(1, KING) ELSE 0]
\* family 2: one black piece of kind k on square t (ranks 2..4)
Fill2(kf, rf, k, t) ==
  [s \in Sq |-> IF s = SqOf(kf, 0) THEN Mk(0, KING) ELSE IF s = SqOf(rf, 0) THEN Mk(0, ROOK)
                ELSE IF s = t THEN Mk(1, k)
                ELSE IF s = SqOf(IF rf = 0 THEN 7 ELSE 0, 7) /\ s # t THEN Mk(1, KING) ELSE 0]
PosW(b, kf, rf) == [b |-> b, stm |-> 0, cr |-> <<IF rf > kf THEN rf ELSE -1, IF rf < kf THEN rf ELSE -1, -1, -1>>,
                    ep |-> -1, hmc |-> 0, fmn |-> 1]
\* colour-and-rank mirror image
SwapColor(p) == IF p = 0 THEN 0 ELSE IF p <= 6 THEN p + 6 ELSE p - 6
Mirror(p) == [b |-> [s \in Sq |-> SwapColor(p.b[FlipRank(s)])], stm |-> 1 - p.stm,
              cr |-> <<p.cr[3], p.cr[4], p.cr[1], p.cr[2]>>, ep |-> p.ep, hmc |-> p.hmc, fmn |-> p.fmn]

Keep(h) == h % Cfg.mod = Cfg.rem
VARIABLES fam, kf, rf, col, fill, k, t
vars == <<fam, kf, rf, col, fill, k, t>>
\* (initial states are enumerated by nested assignment, not as one big constant set)
Init == /\ kf \in 0..7 /\ rf \in (0..7) \ {kf} /\ col \in 0..1
        /\ \/ /\ fam = 1 /\ k = 0 /\ t = 0
              /\ fill \in [(0..7) \ {kf, rf} -> 0..(Cfg.kinds - 1)]
              /\ Keep(kf * 8 + rf + col + 3 * (LET v(f) == IF f \in DOMAIN fill THEN fill[f] ELSE 0
                                                IN v(0) + 3 * v(1) + 5 * v(2) + 7 * v(3) + 11 * v(4) + 13 * v(5) + 17 * v(6) + 19 * v(7)))
           \/ /\ fam = 2 /\ fill = <<>>
              /\ k \in 1..5 /\ t \in {x \in Sq : RankOf(x) \in 1..3}
              /\ Keep(kf + rf + k + t + col)
Next == UNCHANGED vars
Spec == Init /\ [][Next]_vars
ThePos == LET w == IF fam = 1 THEN PosW(Fill1(kf, rf, [f \in 0..7 |-> IF f \in DOMAIN fill THEN fill[f] ELSE 0]), kf, rf)
                   ELSE PosW(Fill2(kf, rf, k, t), kf, rf)
          IN IF col = 0 THEN w ELSE Mirror(w)
\* only cases that are sound positions are worth sending (the library would refuse the others anyway)
Emit == LET p == ThePos IN
        IF OneKingEach(p) /\ Valid(p) THEN PrintT(<<"GEN", CanonFen(p, TRUE)>>) ELSE TRUE
=============================================================================
