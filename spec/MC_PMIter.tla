------------------------------ MODULE MC_PMIter ------------------------------
(***************************************************************************)
(* PieceMovesIter as a state machine (piece_moves.rs: `to` set + promotion *)
(* counter), checked EXHAUSTIVELY by TLC over a reduced but complete       *)
(* universe: all 6 kinds x all subsets of 7 destination squares mixing     *)
(* both promotion ranks and interior squares x every prefix of iteration.  *)
(***************************************************************************)
EXTENDS Containers
U == {0, 3, 7, 25, 36, 58, 63}          \* a1 d1 h1 b4 e5 c8 h8
From == 9
VARIABLES piece, to, promo, yielded, to0
vars == <<piece, to, promo, yielded, to0>>
IterLen == PMLen(piece, to) - promo      \* PieceMovesIter::len
Init == /\ piece \in 1..6 /\ to \in SUBSET U /\ to0 = to /\ promo = 0 /\ yielded = <<>>
Next == /\ to # {}
        /\ LET t == MinOf(to) IN
           IF IsPromoDest(piece, t)
           THEN /\ yielded' = Append(yielded, <<From, t, promo + 2>>)     \* 0->N(2) 1->B(3) 2->R(4) 3->Q(5)
                /\ IF promo < 3 THEN promo' = promo + 1 /\ to' = to ELSE promo' = 0 /\ to' = to \ {t}
           ELSE /\ yielded' = Append(yielded, <<From, t, 0>>) /\ to' = to \ {t} /\ promo' = promo
        /\ UNCHANGED <<piece, to0>>
Spec == Init /\ [][Next]_vars
\* the machine yields exactly the prescribed sequence, prefix by prefix
PrefixOK == yielded = SubSeq(PMSeq(piece, From, to0), 1, Len(yielded))
NoDup == Cardinality(SetOfSeq(yielded)) = Len(yielded)
LenOK == IterLen + Len(yielded) = PMLen(piece, to0)                         \* exact remaining length at every prefix
DoneOK == (to = {}) => (SetOfSeq(yielded) = PMSet(piece, From, to0) /\ IterLen = 0 /\ Len(yielded) = Len(PMSeq(piece, From, to0)))
EmptyOK == (to0 = {}) <=> (PMLen(piece, to0) = 0)
Sample == (to = {} /\ Len(yielded) = 9 /\ piece = 1) => PrintT(<<"SAMPLE", "PMIter", piece, to0, yielded>>)
=============================================================================
