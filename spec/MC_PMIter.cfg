SPECIFICATION Spec
INVARIANT PrefixOK
INVARIANT NoDup
INVARIANT LenOK
INVARIANT DoneOK
INVARIANT EmptyOK
CHECK_DEADLOCK FALSE
