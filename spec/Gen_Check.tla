------------------------------ MODULE Gen_Check ------------------------------
(***************************************************************************)
(* Mode C (spec -> impl): TLC ENUMERATES "one piece about to move, enemy   *)
(* king somewhere" situations: every colour x piece kind (pawn, knight,    *)
(* bishop, rook, queen) x origin square x enemy king square, with the      *)
(* mover's own king parked in a far corner.  The recorder plays EVERY      *)
(* legal move of each position and logs the successor with its cached      *)
(* checkers and pins, which Trace_Board compares with their definition:    *)
(* all geometries of direct checks (board edges and wrap-arounds           *)
(* included), for both colours.                                            *)
(* IOEnv.GENCFG: {"mod": m, "rem": r}.                                     *)
(***************************************************************************)
EXTENDS Text, Json, IOUtils
Cfg == JsonDeserialize(IOEnv.GENCFG)
Keep(h) == h % Cfg.mod = Cfg.rem
VARIABLES col, kind, s, kq
vars == <<col, kind, s, kq>>
Init == /\ col \in 0..1 /\ kind \in 1..5 /\ s \in Sq /\ kq \in Sq \ {s}
        /\ (kind = PAWN => RankOf(s) \in 1..6)
        \* sampled, except that leapers on an edge file with the enemy king on an edge file are always taken
        \* (the geometries in which shift-based attack code wraps around the board)
        /\ (Keep(col + 2 * kind + 7 * s + 13 * kq) \/ (kind \in {PAWN, KNIGHT} /\ FileOf(s) \in {0, 7} /\ FileOf(kq) \in {0, 7}))
Next == UNCHANGED vars
Spec == Init /\ [][Next]_vars
\* the mover's king: the first corner that is free, not adjacent to the enemy king and not attacked trivially
OwnKing == LET cands == <<0, 7, 56, 63, 27, 36>>
               ok(q) == q # s /\ q # kq /\ q \notin KingAtt[kq]
           IN cands[MinOf({i \in 1..6 : ok(cands[i])})]
PosWith(ok) == [b |-> [x \in Sq |-> IF x = s THEN Mk(col, kind) ELSE IF x = kq THEN Mk(1 - col, KING) ELSE IF x = ok THEN Mk(col, KING) ELSE 0],
                stm |-> col, cr |-> <<-1,-1,-1,-1>>, ep |-> -1, hmc |-> 0, fmn |-> 1]
ThePos == PosWith(OwnKing)     \* (the king's square is bound once: the placement function is evaluated lazily)
Emit == IF OneKingEach(ThePos) /\ Valid(ThePos)
        THEN PrintT(<<"GEN", CanonFen(ThePos, TRUE)>>) ELSE TRUE
=============================================================================
