SPECIFICATION Spec
INVARIANT Report
INVARIANT TableComplete
INVARIANT NoZeroKey
INVARIANT KeysDistinct
INVARIANT NoThreeWayCancel
INVARIANT NoFourWayCancel
INVARIANT KingMoveSeparates
INVARIANT KingMovesOfBothSidesSeparate
CHECK_DEADLOCK FALSE
