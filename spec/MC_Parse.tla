------------------------------ MODULE MC_Parse ------------------------------
(***************************************************************************)
(* Mode A for C08 (and the text side of C06/C07): the implementation-      *)
(* shaped reader model (ImplParse.tla) is checked EXHAUSTIVELY over the    *)
(* single-edit corruption space of a set of canonical records:             *)
(*   every deletion of one character, every replacement of one character   *)
(*   by each symbol of an alphabet, every insertion of each symbol at      *)
(*   every position, every truncation to k fields, every appended field,   *)
(* through all three entry points.  For every such text the model's        *)
(* outcome must satisfy the clauses of the property (ParseClauses in       *)
(* TextParse.tla): acceptance only of structurally sound records, the      *)
(* accepted board is the denoted and a sound position, a single bad field  *)
(* is named, too few / too many fields are reported as such.               *)
(* Bases come from IOEnv.MCCFG: {"roots": [[code points]...]} (Shredder    *)
(* records); the plain-FEN twin of a base is used when all rights are on   *)
(* the a/h files.                                                          *)
(***************************************************************************)
EXTENDS ImplParse, Json, IOUtils
Cfg == JsonDeserialize(IOEnv.MCCFG)       \* {"bases": [{"cp": [...], "sh": 0|1}, ...], "alphabet": [...]}
Alphabet == Cfg.alphabet
NBase == Len(Cfg.bases)

VARIABLES bi, op, at, sym
vars == <<bi, op, at, sym>>
sh == Cfg.bases[bi].sh = 1
\* op 0 identity, 1 delete at, 2 replace at by sym, 3 insert sym before at, 4 truncate to `at` fields, 5 append field number `sym`
\* (two levels, so that TLC's workers share the enumeration: one root state per base record,
\*  whose successors are the corrupted texts)
Init == bi \in 1..NBase /\ op = -1 /\ at = 0 /\ sym = 0
Next == /\ op = -1 /\ UNCHANGED bi
        /\ LET n == Len(Cfg.bases[bi].cp) IN
           \/ op' = 0 /\ at' = 0 /\ sym' = 0
           \/ op' = 1 /\ at' \in 1..n /\ sym' = 0
           \/ op' = 2 /\ at' \in 1..n /\ sym' \in 1..Len(Alphabet)
           \/ op' = 3 /\ at' \in 1..(n + 1) /\ sym' \in 1..Len(Alphabet)
           \/ op' = 4 /\ at' \in 1..5 /\ sym' = 0
           \/ op' = 5 /\ at' = 0 /\ sym' \in 1..3
Spec == Init /\ [][Next]_vars

Base == Cfg.bases[bi].cp
Extra == << <<120>>, <<49>>, <<48, 32, 49>> >>
RECURSIVE JoinFields(_,_)
JoinFields(f, k) == IF k = 0 THEN <<>> ELSE IF k = 1 THEN f[1] ELSE JoinFields(f, k - 1) \o <<32>> \o f[k]
TextCp == CASE op \in {-1, 0} -> Base
            [] op = 1 -> SubSeq(Base, 1, at - 1) \o SubSeq(Base, at + 1, Len(Base))
            [] op = 2 -> SubSeq(Base, 1, at - 1) \o <<Alphabet[sym]>> \o SubSeq(Base, at + 1, Len(Base))
            [] op = 3 -> SubSeq(Base, 1, at - 1) \o <<Alphabet[sym]>> \o SubSeq(Base, at, Len(Base))
            [] op = 4 -> JoinFields(Fields(Base), at)
            [] op = 5 -> Base \o <<32>> \o Extra[sym]
Outcome(mode) == ParseImpl(TextCp, mode)
BaseAccepted(mode) == ParseImpl(Base, mode).k = "ok"
Modes == IF sh THEN {1, 2} ELSE {0, 2}
ViolationsOf(mode) == LET r == Outcome(mode) IN
   ParseClauses(TextCp, Base, BaseAccepted(mode), mode, r.k, IF r.k = "err" THEN r.err ELSE "", IF r.k = "ok" THEN r.pos ELSE [b |-> EmptyBoard, stm |-> 0, cr |-> <<-1,-1,-1,-1>>, ep |-> -1, hmc |-> 0, fmn |-> 1])
\* the model satisfies the clauses on every text of the corruption space
ClausesHold == op = -1 \/ \A mode \in Modes : IF ViolationsOf(mode) = {} THEN TRUE
                                     ELSE (PrintT(<<"MODEL-VIOLATION", mode, TextCp, ViolationsOf(mode)>>) /\ FALSE)
\* canonical records are read back as the position they were written from, by every entry point that applies
CanonicalAccepted == op # 0 \/ \A mode \in Modes : LET r == Outcome(mode)  d == Denote(Base, IF sh THEN 1 ELSE 0) IN
                                                      r.k = "ok" /\ d.ok /\ r.pos = AsPos(d.bs) /\ CanonCp(r.pos, sh) = Base
Sample == ~(op = 2 /\ at = 3 /\ sym = 1 /\ bi = 1) \/ PrintT(<<"SAMPLE", "corrupted-record", TextCp, Outcome(2)>>)
=============================================================================
