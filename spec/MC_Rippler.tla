----------------------------- MODULE MC_Rippler -----------------------------
(***************************************************************************)
(* BitBoardSubsetIter (carry-rippler: subset' = (subset - set) & set with  *)
(* wrapping subtraction) on an 8-bit universe, exhaustively for all 256    *)
(* masks: every subset exactly once, in increasing numeric order; and the  *)
(* set-level order BBLess used by the trace specification agrees with the  *)
(* numeric order.                                                          *)
(***************************************************************************)
EXTENDS Containers, Bitwise
W == 256
VARIABLES set, subset, finished, out
vars == <<set, subset, finished, out>>
Init == set \in 0..(W-1) /\ subset = 0 /\ finished = FALSE /\ out = <<>>
Next == /\ ~finished
        /\ out' = Append(out, subset)
        /\ subset' = ((subset - set + W) % W) & set
        /\ finished' = (subset' = 0)
        /\ UNCHANGED set
Spec == Init /\ [][Next]_vars
IsSub(x, m) == (x & m) = x
Bits(x) == {i \in 0..7 : (x \div (2^i)) % 2 = 1}
Increasing == \A i \in 1..(Len(out)-1) : out[i] < out[i+1]
AllSub == \A i \in 1..Len(out) : IsSub(out[i], set)
Complete == finished => SetOfSeq(out) = {x \in 0..(W-1) : IsSub(x, set)}
\* flip_files works rank by rank (byte by byte) with three delta swaps; on one byte: the result is the mirror image
Shl(x, n) == (x * (2^n)) % W
Shr(x, n) == x \div (2^n)
FlipByteImpl(x) == LET a == (Shr(x, 1) & 85) | Shl(x & 85, 1)
                       b == (Shr(a, 2) & 51) | Shl(a & 51, 2)
                   IN (Shr(b, 4) & 15) | Shl(b & 15, 4)
FlipFilesOK == Bits(FlipByteImpl(set)) = {7 - i : i \in Bits(set)} /\ FlipByteImpl(FlipByteImpl(set)) = set
\* the order on sets used when judging logged subset sequences is the numeric order
OrderAgrees == \A i \in 1..(Len(out)-1) : BBLess(Bits(out[i]), Bits(out[i+1]))
=============================================================================
