SPECIFICATION Spec
INVARIANT DefinitionsAgree
INVARIANT Quotient
INVARIANT Shape
INVARIANT Sample
CHECK_DEADLOCK FALSE
