----------------------------- MODULE Containers -----------------------------
(***************************************************************************)
(* Value types as mathematics.  A bitboard is a subset of Sq and its       *)
(* operators are TLA+'s own set operators (C18).  A move batch             *)
(* (piece, from, to) denotes a sequence of moves (C17).                    *)
(***************************************************************************)
EXTENDS Rules

(* ---- BitBoard (C18) ---- *)
BBIterSeq(S) == SeqOfSet(S)                         \* members in ascending order
BBFlipRanks(S) == {FlipRank(s) : s \in S}
BBFlipFiles(S) == {FlipFile(s) : s \in S}
\* numeric order of bitboards without 64-bit numbers: A < B iff the highest square in which they differ is in B
BBLess(A, B) == A # B /\ MaxOf((A \ B) \cup (B \ A)) \in B

(* ---- PieceMoves (C17) ---- *)
IsPromoDest(k, t) == k = PAWN /\ RankOf(t) \in {0, 7}
\* the enumeration the statement prescribes, in iteration order: ascending destination,
\* four promotion moves N B R Q for a pawn reaching the first or eighth rank
RECURSIVE PMSeqFrom(_,_,_)
PMSeqFrom(k, f, q) == IF q = <<>> THEN <<>> ELSE
   (IF IsPromoDest(k, Head(q)) THEN << <<f, Head(q), KNIGHT>>, <<f, Head(q), BISHOP>>, <<f, Head(q), ROOK>>, <<f, Head(q), QUEEN>> >>
    ELSE << <<f, Head(q), 0>> >>) \o PMSeqFrom(k, f, Tail(q))
PMSeq(k, f, T) == PMSeqFrom(k, f, SeqOfSet(T))
PMSet(k, f, T) == UNION {IF IsPromoDest(k, t) THEN {<<f, t, p>> : p \in 2..5} ELSE {<<f, t, 0>>} : t \in T}
PMLen(k, T) == IF k = PAWN THEN Cardinality({t \in T : ~IsPromoDest(k, t)}) + 4 * Cardinality({t \in T : IsPromoDest(k, t)})
               ELSE Cardinality(T)
=============================================================================
