-------------------------------- MODULE Text --------------------------------
(***************************************************************************)
(* Text forms.  Canonical texts are BUILT as TLA+ strings (TLC supports    *)
(* \o, Len, SubSeq, ToString on strings); texts that are ANALYSED are      *)
(* handled as sequences of Unicode code points (module TextParse).         *)
(***************************************************************************)
EXTENDS Rules

FileCh(f) == <<"a","b","c","d","e","f","g","h">>[f+1]
FileUp(f) == <<"A","B","C","D","E","F","G","H">>[f+1]
RankCh(r) == <<"1","2","3","4","5","6","7","8">>[r+1]
SqName(s) == FileCh(FileOf(s)) \o RankCh(RankOf(s))
PieceCh(p) == <<"P","N","B","R","Q","K","p","n","b","r","q","k">>[p]
KindUp(k) == <<"P","N","B","R","Q","K">>[k]
KindLo(k) == <<"p","n","b","r","q","k">>[k]
ColorCh(c) == IF c = 0 THEN "w" ELSE "b"
\* the text of a move value: promo 0 or any kind 1..6
MoveText(m) == SqName(m[1]) \o SqName(m[2]) \o (IF m[3] # 0 THEN KindLo(m[3]) ELSE "")

Num(n) == IF n > 0 THEN ToString(n) ELSE ""
RECURSIVE RowStr(_,_,_,_)
RowStr(b, r, f, e) == IF f = 8 THEN Num(e)
                      ELSE IF b[SqOf(f, r)] = 0 THEN RowStr(b, r, f+1, e+1)
                      ELSE Num(e) \o PieceCh(b[SqOf(f, r)]) \o RowStr(b, r, f+1, 0)
RECURSIVE Rows(_,_)
Rows(b, r) == RowStr(b, r, 0, 0) \o (IF r = 0 THEN "" ELSE "/" \o Rows(b, r-1))
\* rights in the order white short, white long, black short, black long
CrStr(cr, sh) == LET one(i) == IF cr[i] = -1 THEN "" ELSE
                                IF sh THEN (IF i <= 2 THEN FileUp(cr[i]) ELSE FileCh(cr[i]))
                                ELSE <<"K","Q","k","q">>[i]
                     s == one(1) \o one(2) \o one(3) \o one(4)
                 IN IF s = "" THEN "-" ELSE s
\* the canonical six-field record; sh = TRUE for Shredder-FEN
CanonFen(p, sh) == Rows(p.b, 7) \o " " \o ColorCh(p.stm) \o " " \o CrStr(p.cr, sh) \o " "
                   \o (IF p.ep = -1 THEN "-" ELSE FileCh(p.ep) \o (IF p.stm = 0 THEN "6" ELSE "3"))
                   \o " " \o ToString(p.hmc) \o " " \o ToString(p.fmn)
\* every right on the a/h file: plain FEN can express the rights
AHRights(p) == p.cr[1] \in {-1, 7} /\ p.cr[2] \in {-1, 0} /\ p.cr[3] \in {-1, 7} /\ p.cr[4] \in {-1, 0}
=============================================================================
