-------------------------------- MODULE Chess --------------------------------
(***************************************************************************)
(* The state machine of the library's Board: state = the implementation-   *)
(* shaped board (ZobristBoard + cached checkers, pins + clocks, module     *)
(* Impl), actions = the API's state changes.  The rules layer (module      *)
(* Rules) is the abstraction; TLC checks on every explored state that the  *)
(* implementation-shaped layer refines it:                                 *)
(*    generation = Legal (C01), successor = Make (C02), cached checkers /  *)
(*    pins = definition (C03), is_legal = Legal (C04), every state sound   *)
(*    and accepted by the validator (C06), hash = Features (C10),          *)
(*    status (C12), null move (C14), try_play (C15), masks and batches     *)
(*    (C16).                                                               *)
(* Roots and bounds come from a JSON configuration (IOEnv.MCCFG):          *)
(*   {"roots": [[code points of a Shredder-FEN record], ...],              *)
(*    "depth": n, "setters": 0|1, "sweep": 0|1|2}                          *)
(***************************************************************************)
EXTENDS ImplParse, ImplSan, Json, IOUtils

Cfg == JsonDeserialize(IOEnv.MCCFG)
RootPos(i) == AsPos(Denote(Cfg.roots[i], 1).bs)
RootSet == {RootPos(i) : i \in 1..Len(Cfg.roots)}

VARIABLE bd          \* [zb, chk, pin, hmc, fmn]
vars == <<bd>>
pos == AbsPos(bd.zb, bd.hmc, bd.fmn)

Init == \E p \in RootSet : bd = BoardOf(p)
Play(m) == bd' = PlayUnchecked(bd, m)
NullMv == NullMoveEnabled(bd) /\ bd' = NullMoveImpl(bd)
SetHalfmove(n) == bd' = [bd EXCEPT !.hmc = n]
SetFullmove(n) == bd' = [bd EXCEPT !.fmn = n]
Next == \/ \E m \in Legal(pos) : Play(m)
        \/ NullMv
        \/ Cfg.setters = 1 /\ \E n \in {99, 100} : SetHalfmove(n)
        \/ Cfg.setters = 1 /\ \E n \in {65535} : SetFullmove(n)
Spec == Init /\ [][Next]_vars
DepthBound == TLCGet("level") <= Cfg.depth

(* ---- invariants: L2 = L1 on every explored state ---- *)
WellFormed == ZWellFormed(bd.zb)
GenAll == GenFor(bd, Sq)
GenExact == /\ MovesOfGen(GenAll) = Legal(pos)                        \* C01: exactly the legal moves
            /\ TotalLenI(GenAll, 1) = Cardinality(Legal(pos))         \*      each once
            /\ \A i \in 1..Len(GenAll) : pos.b[GenAll[i][2]] = Mk(pos.stm, GenAll[i][1])
DerivedOK == bd.chk = Checkers(pos) /\ bd.pin = Pinned(pos)            \* C03
CheckersAreAttackers == Checkers(pos) = Attackers(pos.b, KingSq(pos.b, pos.stm), 1 - pos.stm)
IsLegalOK == IF Cfg.sweep = 0 THEN TRUE
             ELSE IF Cfg.sweep = 1 THEN IsLegalTrueSet(bd, Own(pos.b, pos.stm)) = Legal(pos)
             ELSE IsLegalTrueSet(bd, Sq) = Legal(pos)                  \* C04: all 28 672 move values
Sound == Valid(pos)                                                    \* C06 soundness
ReachAccepted == ImplStage(pos) = "ok"                                 \* C06 acceptance: reachable => accepted
FreshEqual == BoardOf(pos) = bd                                        \* C03/C07/C09: equals the freshly constructed board
HashPure == bd.zb.hash = Features(pos)                                 \* C10
           /\ HashWithoutEp(bd.zb) = Features([pos EXCEPT !.ep = -1])
StatusOK == StatusImpl(bd) = Status(pos)                               \* C12
NullEnabledOK == NullMoveEnabled(bd) <=> NullOk(pos)                   \* C14
BatchesOK == /\ Len(GenAll) <= 18 /\ \A i \in 1..Len(GenAll) : GenAll[i][3] # {}     \* C16
MaskLaw == LET lg == Legal(pos)
               masks == {{}, Own(pos.b, pos.stm), Sq \ Own(pos.b, pos.stm), bd.pin, {KingSq(pos.b, pos.stm)}}
                        \cup {{s} : s \in Own(pos.b, pos.stm)} \cup {PiecesOf(pos.b, pos.stm, k) : k \in 1..6}
           IN \A M \in masks : LET g == GenFor(bd, M) IN
                 /\ MovesOfGen(g) = {m \in lg : m[1] \in M} /\ Len(g) <= 18 /\ \A i \in 1..Len(g) : g[i][3] # {}
SameAsSelf == SamePositionImpl(bd, bd) /\ EffectiveEpImpl(bd) = EffEp(pos)        \* C13 (one-state part)

(* ---- action properties ---- *)
SuccOK == [][\A m \in Legal(pos) : LET n == PlayUnchecked(bd, m) IN AbsPos(n.zb, n.hmc, n.fmn) = Make(pos, m)]_vars   \* C02
NullOK == [][NullMv => /\ NullOk(pos)
                        /\ AbsPos(bd'.zb, bd'.hmc, bd'.fmn) = NullMake(pos)]_vars                                        \* C14
\* C15: try_play = (is_legal then play_unchecked): accepted exactly for legal moves (sampled promotions included)
TryPlayOK == \A m \in Legal(pos) : IsLegalImpl(bd, m)

\* C20: SAN is injective on the legal moves, every canonical SAN is matched by its own move and by no other
SanCanonical == LET lg == Legal(pos) IN
                Cardinality({San(pos, lg, m) : m \in lg}) = Cardinality(lg)

\* C07: the canonical record determines the position (reading it back gives the position: the text is injective),
\* it is structurally sound, and plain FEN does the same whenever every right is on the a/h file
CanonRoundTrip == LET d == Denote(CanonCp(pos, TRUE), 1) IN
                  /\ d.ok /\ AsPos(d.bs) = pos /\ Structural(CanonCp(pos, TRUE))
                  /\ (AHRights(pos) => LET e == Denote(CanonCp(pos, FALSE), 0) IN e.ok /\ AsPos(e.bs) = pos)
\* the implementation-shaped reader model accepts every canonical record and returns the position it was written from
ParseModelRoundTrip == LET r == ParseImpl(CanonCp(pos, TRUE), 1)  q == ParseImpl(CanonCp(pos, TRUE), 2) IN
                       /\ r.k = "ok" /\ r.pos = pos /\ q.k = "ok" /\ q.pos = pos
                       /\ (AHRights(pos) => LET e == ParseImpl(CanonCp(pos, FALSE), 0) IN e.k = "ok" /\ e.pos = pos)
\* C13: against the same position with the ep file cleared (the case that matters for repetition)
NoEp == [pos EXCEPT !.ep = -1]
SameVsNoEp == pos.ep = -1 \/ ImplStage(NoEp) # "ok" \/
              (/\ SamePositionImpl(bd, BoardOf(NoEp)) = SamePos(pos, NoEp)
               /\ SamePositionImpl(BoardOf(NoEp), bd) = SamePos(NoEp, pos))

\* C20, implementation-shaped: the writer's components equal the canonical ones and the reader inverts them
SanImplOK == LET lg == Legal(pos) IN
             \A m \in lg : LET parts == SanParts(pos, lg, m) IN
                /\ DisplaySanImpl(bd, m) = parts
                /\ ParseSanImpl(bd, TokensOfParts(parts)) = m

Sample == TLCGet("level") > 1 \/ PrintT(<<"SAMPLE", "root", CanonFen(pos, TRUE), Cardinality(Legal(pos))>>)
=============================================================================
