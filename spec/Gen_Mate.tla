------------------------------ MODULE Gen_Mate ------------------------------
(***************************************************************************)
(* Mode C (spec -> impl): TLC ENUMERATES three- and four-piece endings:    *)
(* two kings, one or two pieces (queen, rook, bishop, knight, pawn) of one *)
(* side, either side to move, half-move clock 0, 99 or 100.  This family   *)
(* is dense in checkmates, stalemates, single and double checks and        *)
(* clock-100 positions with and without legal moves, i.e. in every branch  *)
(* of the status function.                                                 *)
(* IOEnv.GENCFG: {"amod","arem","bmod","brem","cmod","crem","mod","rem"}.   *)
(***************************************************************************)
EXTENDS Text, Json, IOUtils
Cfg == JsonDeserialize(IOEnv.GENCFG)
Keep(h) == h % Cfg.mod = Cfg.rem
VARIABLES wk, bk, k1, s1, k2, s2, stm, clk, owner
vars == <<wk, bk, k1, s1, k2, s2, stm, clk, owner>>
\* staged sampling: each group of choices is thinned as soon as it is made, so the enumeration stays small
Init == /\ bk \in Sq /\ wk \in Sq \ ({bk} \cup KingAtt[bk])
        /\ (bk * 67 + wk * 131) % Cfg.amod = Cfg.arem
        /\ owner \in 0..1                                     \* whose pieces
        /\ k1 \in 1..5 /\ s1 \in Sq \ {wk, bk} /\ (k1 = PAWN => RankOf(s1) \in 1..6)
        /\ (s1 * 29 + k1 * 7 + owner) % Cfg.bmod = Cfg.brem
        /\ k2 \in {0, ROOK, QUEEN, KNIGHT} /\ s2 \in (IF k2 = 0 THEN {0} ELSE Sq \ {wk, bk, s1})
        /\ (k2 = 0 \/ (s2 * 37 + k2 * 11) % Cfg.cmod = Cfg.crem)
        /\ stm \in 0..1 /\ clk \in {0, 99, 100}
        /\ Keep(wk * 7919 + bk * 104729 + k1 * 15485 + s1 * 32452 + k2 * 49979 + s2 * 86028 + stm * 12343 + clk * 27644 + owner * 611953)
Next == UNCHANGED vars
Spec == Init /\ [][Next]_vars
PosWith(a, b2) == [b |-> [x \in Sq |-> IF x = wk THEN Mk(0, KING) ELSE IF x = bk THEN Mk(1, KING)
                                      ELSE IF x = a THEN Mk(owner, k1) ELSE IF x = b2 THEN Mk(owner, k2) ELSE 0],
                   stm |-> stm, cr |-> <<-1,-1,-1,-1>>, ep |-> -1, hmc |-> clk, fmn |-> 70]
ThePos == PosWith(s1, IF k2 = 0 THEN -1 ELSE s2)
Emit == IF OneKingEach(ThePos) /\ Valid(ThePos) THEN PrintT(<<"GEN", CanonFen(ThePos, TRUE)>>) ELSE TRUE
=============================================================================
