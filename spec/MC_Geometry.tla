----------------------------- MODULE MC_Geometry -----------------------------
(***************************************************************************)
(* Mode A for C05: the geometric definitions themselves are checked,       *)
(* exhaustively, before they serve as the oracle for the lookup tables.    *)
(*  - For every square and EVERY subset of the relevant-occupancy mask the *)
(*    two independent definitions of rook / bishop attacks agree           *)
(*    (walk each ray up to the first occupied square  vs.  aligned and     *)
(*    nothing strictly between).                                           *)
(*  - Quotient lemma: occupancy outside the relevant mask (edge squares at *)
(*    the far end of a ray, squares off the rays, the slider's own square) *)
(*    never changes the attack set -- this is what justifies enumerating   *)
(*    2^12 instead of 2^64 occupancies per square on the implementation    *)
(*    side.                                                                *)
(*  - Symmetry and containment laws of the leaper, between and line tables.*)
(* IOEnv.MCCFG: {"rook_squares": [...], "bishop_squares": [...]}           *)
(***************************************************************************)
EXTENDS Geometry, Json, IOUtils
Cfg == JsonDeserialize(IOEnv.MCCFG)
VARIABLES kind, s, occ
vars == <<kind, s, occ>>
\* two levels: one root per (kind, square), whose successors are the subsets of its relevant mask
Init == /\ kind \in 0..1 /\ s \in (IF kind = 0 THEN SetOfSeq(Cfg.rook_squares) ELSE SetOfSeq(Cfg.bishop_squares)) /\ occ = {-1}
Next == /\ occ = {-1} /\ UNCHANGED <<kind, s>>
        /\ occ' \in SUBSET (IF kind = 0 THEN RookRelevant(s) ELSE BishopRelevant(s))
Spec == Init /\ [][Next]_vars
Att1(o) == IF kind = 0 THEN RookAttOcc(o, s) ELSE BishopAttOcc(o, s)
Att2(o) == IF kind = 0 THEN RookAtt2(o, s) ELSE BishopAtt2(o, s)
Irrelevant == Sq \ (IF kind = 0 THEN RookRelevant(s) ELSE BishopRelevant(s))
DefinitionsAgree == occ = {-1} \/ Att1(occ) = Att2(occ)
Quotient == occ = {-1} \/ (/\ Att1(occ \cup Irrelevant) = Att1(occ)
                          /\ Att1(occ \cup {s}) = Att1(occ)
                          /\ Att1(occ \cup {q \in Irrelevant : (q * 7 + s) % 3 = 0}) = Att1(occ))
\* an attacked square is on an empty-board ray; the first blocker is attacked, nothing behind it is
Shape == occ = {-1} \/ (/\ Att1(occ) \subseteq (IF kind = 0 THEN RookRays[s] ELSE BishopRays[s])
                       /\ \A t \in Att1(occ) : Between(s, t) \cap occ = {})
ASSUME \A a, b \in Sq : (b \in KnightAtt[a] <=> a \in KnightAtt[b]) /\ (b \in KingAtt[a] <=> a \in KingAtt[b])
ASSUME \A a, b \in Sq : (b \in PawnAtt[0][a] <=> a \in PawnAtt[1][b])
ASSUME \A a, b \in Sq : Between(a, b) = Between(b, a) /\ Between(a, b) \subseteq Line(a, b) /\ Line(a, b) = Line(b, a)
ASSUME \A a, b \in Sq : (Line(a, b) = {}) <=> ~Aligned(a, b)
ASSUME \A a, b \in Sq : Aligned(a, b) => ({a, b} \subseteq Line(a, b) /\ Between(a, b) \cap {a, b} = {})
ASSUME \A a \in Sq : Line(a, a) = {} /\ Between(a, a) = {}
ASSUME \A a \in Sq : RookRays[a] \cap BishopRays[a] = {} /\ Cardinality(RookRays[a]) = 14
ASSUME \A a, b \in Sq : (b \in RookRays[a] \cup BishopRays[a]) <=> Aligned(a, b)
Sample == ~(kind = 0 /\ s = 27 /\ occ = {19, 29}) \/ PrintT(<<"SAMPLE", "rook d4 with blockers d3 f4", Att1(occ)>>)
=============================================================================
