----------------------------- MODULE TextParse -----------------------------
(***************************************************************************)
(* FEN / Shredder-FEN records ANALYSED as sequences of Unicode code points *)
(* (C08, C09): splitting, the structural clause S, the denotation of a     *)
(* record (clause F), per-field classification (clause E), and builder     *)
(* states with their aspects.                                              *)
(* A builder state is [b, stm, cr, epsq, hmc, fmn] with epsq a square or   *)
(* -1 (the builder takes an ep SQUARE, the board keeps the file).          *)
(***************************************************************************)
EXTENDS Text

(* ---- splitting (keeps empty fields, like str::split) ---- *)
RECURSIVE SplitR(_,_,_,_)
SplitR(cp, sep, i, acc) == IF i > Len(cp) THEN <<acc>>
                           ELSE IF cp[i] = sep THEN <<acc>> \o SplitR(cp, sep, i+1, <<>>)
                           ELSE SplitR(cp, sep, i+1, Append(acc, cp[i]))
Split(cp, sep) == SplitR(cp, sep, 1, <<>>)
Fields(cp) == Split(cp, 32)

(* ---- placement ---- *)
PieceOfCp(c) == CASE c = 80 -> 1 [] c = 78 -> 2 [] c = 66 -> 3 [] c = 82 -> 4 [] c = 81 -> 5 [] c = 75 -> 6
                  [] c = 112 -> 7 [] c = 110 -> 8 [] c = 98 -> 9 [] c = 114 -> 10 [] c = 113 -> 11 [] c = 107 -> 12 [] OTHER -> 0
IsDigit(c) == c >= 48 /\ c <= 57
\* a row denotes 8 piece codes; digits 1..8 only; anything else gives a sequence that is not 8 long
RECURSIVE RowR(_,_,_)
RowR(row, i, acc) == IF i > Len(row) THEN acc
                     ELSE IF Len(acc) > 8 THEN acc
                     ELSE IF row[i] >= 49 /\ row[i] <= 56 THEN RowR(row, i+1, acc \o [k \in 1..(row[i]-48) |-> 0])
                     ELSE IF PieceOfCp(row[i]) # 0 THEN RowR(row, i+1, Append(acc, PieceOfCp(row[i])))
                     ELSE <<-1,-1,-1,-1,-1,-1,-1,-1,-1>>
RowOf(row) == RowR(row, 1, <<>>)
\* liberal file count for clause S: digits 0-9 count their value, any other character one square
RECURSIVE FilesIn(_,_)
FilesIn(row, i) == IF i > Len(row) THEN 0 ELSE (IF IsDigit(row[i]) THEN row[i] - 48 ELSE 1) + FilesIn(row, i+1)
PlacementStructural(f1) == LET rows == Split(f1, 47) IN Len(rows) = 8 /\ \A r \in 1..8 : FilesIn(rows[r], 1) = 8
\* clause S: six non-empty space-separated fields, placement of exactly eight ranks of exactly eight files
Structural(cp) == LET f == Fields(cp) IN
   /\ Len(f) = 6 /\ \A i \in 1..6 : Len(f[i]) > 0
   /\ PlacementStructural(f[1])
\* a placement every correct reader must refuse: wrong shape or a character that is neither piece letter nor digit
PlacementMalformed(f1) == ~PlacementStructural(f1) \/ \E i \in 1..Len(f1) : f1[i] # 47 /\ ~IsDigit(f1[i]) /\ PieceOfCp(f1[i]) = 0
PlacementSound(f1) == LET rows == Split(f1, 47) IN Len(rows) = 8 /\ \A r \in 1..8 : Len(RowOf(rows[r])) = 8
PlacementOf(f1) == LET rows == Split(f1, 47)  rr == [r \in 1..8 |-> RowOf(rows[r])]
                   IN [s \in Sq |-> rr[8 - RankOf(s)][FileOf(s) + 1]]

(* ---- numbers ---- *)
RECURSIVE NumR(_,_,_)
NumR(s, i, acc) == IF i > Len(s) THEN acc ELSE NumR(s, i+1, acc * 10 + (s[i] - 48))
AllDigits(s) == Len(s) >= 1 /\ \A i \in 1..Len(s) : IsDigit(s[i])
RECURSIVE StripZeros(_)
StripZeros(s) == IF Len(s) > 1 /\ s[1] = 48 THEN StripZeros(Tail(s)) ELSE s
\* value of a digit string, saturated at 100000 (TLC integers are 32 bit)
NumSat(s) == LET z == StripZeros(s) IN IF Len(z) > 5 THEN 100000 ELSE NumR(z, 1, 0)
NumCanonical(s) == AllDigits(s) /\ (Len(s) = 1 \/ s[1] # 48)
\* a clock text no correct reader accepts as a number: not  +?digits
NumMalformed(s) == ~(AllDigits(s) \/ (Len(s) >= 2 /\ s[1] = 43 /\ AllDigits(Tail(s))))
NumValue(s) == IF AllDigits(s) THEN NumSat(s) ELSE IF Len(s) >= 2 /\ s[1] = 43 /\ AllDigits(Tail(s)) THEN NumSat(Tail(s)) ELSE -1

(* ---- castling field ---- *)
KingFileOf(b, c) == LET ks == Kings(b, c) IN IF Cardinality(ks) = 1 THEN FileOf(CHOOSE s \in ks : TRUE) ELSE -1
\* a letter denotes <<colour, wing (1 short, 2 long), file>> or <<-1,-1,-1>>; mode 0 FEN letters, 1 Shredder letters
CrLetter(c, b, mode) ==
  IF mode = 0 THEN (CASE c = 75 -> <<0, 1, 7>> [] c = 81 -> <<0, 2, 0>> [] c = 107 -> <<1, 1, 7>> [] c = 113 -> <<1, 2, 0>> [] OTHER -> <<-1,-1,-1>>)
  ELSE IF c >= 65 /\ c <= 72 THEN (LET kf == KingFileOf(b, 0)  fl == c - 65 IN IF kf = -1 \/ kf = fl THEN <<-1,-1,-1>> ELSE <<0, IF fl > kf THEN 1 ELSE 2, fl>>)
  ELSE IF c >= 97 /\ c <= 104 THEN (LET kf == KingFileOf(b, 1)  fl == c - 97 IN IF kf = -1 \/ kf = fl THEN <<-1,-1,-1>> ELSE <<1, IF fl > kf THEN 1 ELSE 2, fl>>)
  ELSE <<-1,-1,-1>>
CrLetters(cf, b, mode) == IF cf = <<45>> THEN <<>> ELSE [i \in 1..Len(cf) |-> CrLetter(cf[i], b, mode)]
\* well-formed: "-" or letters of the mode's alphabet naming distinct (colour, wing) pairs
CrWellFormed(cf, b, mode) == LET ls == CrLetters(cf, b, mode) IN
   /\ Len(cf) >= 1 /\ (\A i \in 1..Len(ls) : ls[i][1] # -1)
   /\ \A i, j \in 1..Len(ls) : i # j => <<ls[i][1], ls[i][2]>> # <<ls[j][1], ls[j][2]>>
CrOf(cf, b, mode) == LET ls == CrLetters(cf, b, mode)
                         at(c, w) == LET hit == {i \in 1..Len(ls) : ls[i][1] = c /\ ls[i][2] = w}
                                     IN IF hit = {} THEN -1 ELSE ls[CHOOSE i \in hit : TRUE][3]
                     IN <<at(0,1), at(0,2), at(1,1), at(1,2)>>
\* characters outside the mode's alphabet, an empty field, or "-" among letters
CrAlphabetOk(cf, mode) == cf = <<45>> \/ (Len(cf) >= 1 /\ \A i \in 1..Len(cf) :
                              IF mode = 0 THEN cf[i] \in {75, 81, 107, 113} ELSE (cf[i] >= 65 /\ cf[i] <= 72) \/ (cf[i] >= 97 /\ cf[i] <= 104))

(* ---- en-passant field ---- *)
EpWellFormed(e) == e = <<45>> \/ (Len(e) = 2 /\ e[1] >= 97 /\ e[1] <= 104 /\ e[2] >= 49 /\ e[2] <= 56)
EpSqOf(e) == IF e = <<45>> THEN -1 ELSE SqOf(e[1] - 97, e[2] - 49)

(* ---- builder states and their aspects ---- *)
AsPos(bs) == [b |-> bs.b, stm |-> bs.stm, cr |-> bs.cr, ep |-> IF bs.epsq = -1 THEN -1 ELSE FileOf(bs.epsq), hmc |-> bs.hmc, fmn |-> bs.fmn]
BoardAspectOk(bs) == LET p == AsPos(bs) IN OneKingEach(p) /\ KingsApart(p) /\ Material(p) /\ NoBackRankPawns(p) /\ OppNotInCheck(p)
RightsAspectOk(bs) == RightsBacked(AsPos(bs))
EpAspectOk(bs) == bs.epsq = -1 \/ (RankOf(bs.epsq) = (IF bs.stm = 0 THEN 5 ELSE 2) /\ EpBacked(AsPos(bs)) /\ EpCheckConsistent(AsPos(bs)))
HmcAspectOk(bs) == bs.hmc <= 100
FmnAspectOk(bs) == bs.fmn >= 1 /\ bs.fmn <= 65535
\* the aspects of a state that are wrong, each judged on its own
WrongAspects(bs) ==
  (IF BoardAspectOk(bs) THEN {} ELSE {"board"}) \cup (IF RightsAspectOk(bs) THEN {} ELSE {"rights"})
  \cup (IF EpAspectOk(bs) THEN {} ELSE {"ep"}) \cup (IF HmcAspectOk(bs) THEN {} ELSE {"hmc"}) \cup (IF FmnAspectOk(bs) THEN {} ELSE {"fmn"})
\* the C06 statement on a builder state
ValidBs(bs) == BoardAspectOk(bs) /\ RightsAspectOk(bs) /\ EpAspectOk(bs) /\ HmcAspectOk(bs) /\ FmnAspectOk(bs)
AspectError(a) == CASE a = "board" -> "InvalidBoard" [] a = "rights" -> "InvalidCastlingRights" [] a = "ep" -> "InvalidEnPassant"
                    [] a = "hmc" -> "InvalidHalfMoveClock" [] a = "fmn" -> "InvalidFullmoveNumber" [] OTHER -> "?"
\* a Shredder-FEN record can express the state: every right on the correct side of a unique king
Expressible(bs) == \A c \in 0..1 : \A w \in 1..2 : LET f == bs.cr[2*c + w]  kf == KingFileOf(bs.b, c) IN
                      f # -1 => (kf # -1 /\ (IF w = 1 THEN kf < f ELSE f < kf))
\* the record of a builder state (Shredder letters; ep square as given; clocks in plain decimal)
RecordOf(bs) == Rows(bs.b, 7) \o " " \o ColorCh(bs.stm) \o " " \o CrStr(bs.cr, TRUE) \o " "
                \o (IF bs.epsq = -1 THEN "-" ELSE SqName(bs.epsq)) \o " " \o ToString(bs.hmc) \o " " \o ToString(bs.fmn)

(* ---- denotation of a record (clause F); mode 0 FEN letters, 1 Shredder letters ---- *)
Denote(cp, mode) ==
  LET f == Fields(cp)
      okShape == Len(f) = 6 /\ PlacementSound(f[1])
  IN IF ~okShape THEN [ok |-> FALSE] ELSE
     LET b == PlacementOf(f[1])
         stmOk == f[2] = <<119>> \/ f[2] = <<98>>
         stm == IF f[2] = <<119>> THEN 0 ELSE 1
         crOk == CrWellFormed(f[3], b, mode)
         epOk == EpWellFormed(f[4])
         nOk == NumValue(f[5]) # -1 /\ NumValue(f[6]) # -1
     IN IF ~(stmOk /\ crOk /\ epOk /\ nOk) THEN [ok |-> FALSE]
        ELSE [ok |-> TRUE, bs |-> [b |-> b, stm |-> stm, cr |-> CrOf(f[3], b, mode), epsq |-> EpSqOf(f[4]),
                                    hmc |-> NumValue(f[5]), fmn |-> NumValue(f[6])]]

(* ---- the canonical record as code points (so that the specification can read back what it writes) ---- *)
CpOfPiece(p) == <<80, 78, 66, 82, 81, 75, 112, 110, 98, 114, 113, 107>>[p]
RECURSIVE DigitsCp(_)
DigitsCp(n) == IF n < 10 THEN <<48 + n>> ELSE DigitsCp(n \div 10) \o <<48 + (n % 10)>>
RECURSIVE RowCp(_,_,_,_)
RowCp(b, r, f, e) == IF f = 8 THEN (IF e > 0 THEN <<48 + e>> ELSE <<>>)
                     ELSE IF b[SqOf(f, r)] = 0 THEN RowCp(b, r, f+1, e+1)
                     ELSE (IF e > 0 THEN <<48 + e>> ELSE <<>>) \o <<CpOfPiece(b[SqOf(f, r)])>> \o RowCp(b, r, f+1, 0)
RECURSIVE RowsCp(_,_)
RowsCp(b, r) == RowCp(b, r, 0, 0) \o (IF r = 0 THEN <<>> ELSE <<47>> \o RowsCp(b, r-1))
CrCp(cr, sh) == LET one(i) == IF cr[i] = -1 THEN <<>> ELSE
                               IF sh THEN <<(IF i <= 2 THEN 65 ELSE 97) + cr[i]>> ELSE << <<75, 81, 107, 113>>[i] >>
                    s == one(1) \o one(2) \o one(3) \o one(4)
                IN IF s = <<>> THEN <<45>> ELSE s
CanonCp(p, sh) == RowsCp(p.b, 7) \o <<32, IF p.stm = 0 THEN 119 ELSE 98, 32>> \o CrCp(p.cr, sh) \o <<32>>
                  \o (IF p.ep = -1 THEN <<45>> ELSE <<97 + p.ep, IF p.stm = 0 THEN 54 ELSE 51>>)
                  \o <<32>> \o DigitsCp(p.hmc) \o <<32>> \o DigitsCp(p.fmn)

(* ---- clause E: which single field of a record is definitely bad ---- *)
FieldError(i) == <<"InvalidBoard", "InvalidSideToMove", "InvalidCastlingRights", "InvalidEnPassant", "InvalidHalfMoveClock", "InvalidFullmoveNumber">>[i]
\* field i of text is definitely malformed (syntax alone)
FieldMalformed(f, i, mode) ==
  CASE i = 1 -> PlacementMalformed(f[1])
    [] i = 2 -> ~(f[2] = <<119>> \/ f[2] = <<98>>)
    [] i = 3 -> IF mode = 2 THEN ~CrAlphabetOk(f[3], 0) /\ ~CrAlphabetOk(f[3], 1) ELSE ~CrAlphabetOk(f[3], mode)
    [] i = 4 -> ~EpWellFormed(f[4])
    [] i = 5 -> NumMalformed(f[5])
    [] i = 6 -> NumMalformed(f[6])
(* ---- the clauses of C08 (and the soundness half of C06) for ONE reader outcome ---- *)
\* cp: the text; base: a canonical record of an accepted board (or <<>>); baseOk: that record was accepted by this
\* entry point; mode 0 from_fen(false), 1 from_fen(true), 2 FromStr; k/err/got: the outcome.  Result: set of violations.
ParseClauses(cp, base, baseOk, mode, k, err, got) ==
  LET ok == k = "ok"
      f == Fields(cp)
      d0 == IF mode \in {0, 2} THEN Denote(cp, 0) ELSE [ok |-> FALSE]
      d1 == IF mode \in {1, 2} THEN Denote(cp, 1) ELSE [ok |-> FALSE]
      ds == (IF d0.ok THEN {d0.bs} ELSE {}) \cup (IF d1.ok THEN {d1.bs} ELSE {})
      fb == Fields(base)
      canonOk == Len(base) > 0 /\ baseOk
      diff == IF Len(f) = 6 /\ Len(fb) = 6 THEN {i \in 1..6 : f[i] # fb[i]} ELSE {}
      i == IF Cardinality(diff) = 1 THEN CHOOSE j \in diff : TRUE ELSE 0
      aspect == IF i = 1 THEN "board" ELSE IF i = 3 THEN "rights" ELSE IF i = 4 THEN "ep" ELSE IF i = 5 THEN "hmc" ELSE IF i = 6 THEN "fmn" ELSE "none"
      \* a castling field no reader of this notation can accept: foreign characters, two rights for one (colour, wing),
      \* a letter on the king's own file (the placement is the base's, hence sound)
      crBad(md) == ~CrAlphabetOk(f[3], md) \/ (PlacementSound(f[1]) /\ ~CrWellFormed(f[3], PlacementOf(f[1]), md))
      crBadAll == i = 3 /\ (IF mode = 2 THEN crBad(0) /\ crBad(1) ELSE crBad(mode))
      fieldBad == i # 0 /\ (FieldMalformed(f, i, mode) \/ crBadAll \/ (ds # {} /\ \A bs \in ds : WrongAspects(bs) = {aspect}))
      truncated == Len(base) > 0 /\ Len(f) >= 1 /\ Len(f) <= 5 /\ Len(fb) = 6 /\ \A j \in 1..Len(f) : f[j] = fb[j]
      extended == Len(base) > 0 /\ Len(f) > 6 /\ Len(fb) = 6 /\ SubSeq(f, 1, 6) = fb /\ \A j \in 7..Len(f) : Len(f[j]) > 0
      \* a record on its own (no base needed): every field is well formed, the denoted state violates the soundness
      \* statement in exactly one aspect, and fewer than three pieces check the mover (so that no reader can object to
      \* the placement): the error must name that aspect's field
      lone == IF Len(f) = 6 /\ ds # {} /\ \A bs \in ds : Cardinality(WrongAspects(bs)) = 1 /\ OneKingEach(AsPos(bs))
                    /\ Cardinality(Attackers(bs.b, KingSq(bs.b, bs.stm), 1 - bs.stm)) < 3
              THEN UNION {WrongAspects(bs) : bs \in ds} ELSE {}
      loneField == IF Cardinality(lone) = 1 THEN AspectError(CHOOSE a \in lone : TRUE) ELSE ""
      S_(c, x) == IF c THEN {x} ELSE {}
  IN
  S_(ok /\ ~Structural(cp), <<"C08", "accepted-text-without-six-fields-and-8x8-placement", mode>>)
  \cup S_(ok /\ ds # {} /\ \A bs \in ds : got # AsPos(bs), <<"C08", "board-is-not-the-position-the-text-denotes", mode>>)
  \cup S_(ok /\ OneKingEach(got) /\ ~Valid(got), <<"C06", "parser-accepts-unsound-position", mode, Broken(got)>>)
  \cup S_(ok /\ ~OneKingEach(got), <<"C06", "parser-accepts-unsound-position", mode, {"kings"}>>)
  \cup S_(canonOk /\ fieldBad /\ (k # "err" \/ err # FieldError(i)), <<"C08", "error-does-not-name-the-bad-field", mode, i, k, err>>)
  \cup S_(loneField # "" /\ (k # "err" \/ err # loneField), <<"C08", "unsupported-field-not-named", mode, loneField, k, err>>)
  \cup S_(canonOk /\ truncated /\ (k # "err" \/ err # "MissingField"), <<"C08", "too-few-fields-not-reported", mode, k, err>>)
  \cup S_(canonOk /\ extended /\ (k # "err" \/ err # "TooManyFields"), <<"C08", "too-many-fields-not-reported", mode, k, err>>)
=============================================================================
