------------------------------- MODULE Gen_Pin -------------------------------
(***************************************************************************)
(* Mode C (spec -> impl): TLC ENUMERATES pin situations: the mover's king  *)
(* on any square, a piece of either colour and any kind standing on a      *)
(* square aligned with it, an enemy rook / bishop / queen further out on   *)
(* the same line (so the piece is pinned when the slider moves along that  *)
(* line, and merely shadowed when it does not), optionally a second piece  *)
(* in between (no pin).  Generation, is_legal and every move's successor   *)
(* (with its cached pins) are then judged by Trace_Board.                  *)
(* IOEnv.GENCFG: {"mod": m, "rem": r, "kmod": k, "krem": j} (king squares   *)
(* with s % k = j, cases with index hash % m = r).                          *)
(***************************************************************************)
EXTENDS Text, Json, IOUtils
Cfg == JsonDeserialize(IOEnv.GENCFG)
Keep(h) == h % Cfg.mod = Cfg.rem
VARIABLES col, ks, d, i, j, pk, pc, sk, extra
vars == <<col, ks, d, i, j, pk, pc, sk, extra>>
\* king on ks; along direction d: the middle piece at distance i, the slider at distance j > i
Init == /\ col \in 0..1 /\ ks \in {q \in Sq : q % Cfg.kmod = Cfg.krem} /\ d \in 1..8
        /\ j \in 2..Len(Rays[ks][d]) /\ i \in 1..(j - 1)
        /\ pk \in 1..5 /\ pc \in 0..1            \* kind and colour (relative: 0 = mover's) of the middle piece
        /\ sk \in {BISHOP, ROOK, QUEEN}
        /\ extra \in 0..1                         \* a second blocker right behind the middle piece (if there is room)
        /\ (extra = 1 => j - i >= 2)
        /\ Keep(col * 7919 + ks * 104729 + d * 15485 + i * 32452 + j * 49979 + pk * 86028 + pc * 12343 + sk * 27644 + extra * 611953)
Next == UNCHANGED vars
Spec == Init /\ [][Next]_vars
Mid == Rays[ks][d][i]
Sld == Rays[ks][d][j]
Ext == Rays[ks][d][i + 1]
\* the enemy king: a corner that is free and not adjacent to the mover's king
EnemyKing == LET line == SetOfSeq(Rays[ks][d]) \cup {ks}
                 cands == <<63, 56, 7, 0, 36, 27>>
                 ok(q) == q \notin line /\ q \notin KingAtt[ks]
             IN IF \E n \in 1..6 : ok(cands[n]) THEN cands[MinOf({n \in 1..6 : ok(cands[n])})] ELSE -1
\* (the squares are bound once: the placement is a lazily evaluated function, looked up thousands of times)
PosWith(ek, mid, sld, ext) ==
          [b |-> [x \in Sq |-> IF x = ks THEN Mk(col, KING)
                               ELSE IF x = mid THEN Mk(IF pc = 0 THEN col ELSE 1 - col, pk)
                               ELSE IF x = sld THEN Mk(1 - col, sk)
                               ELSE IF x = ext THEN Mk(col, KNIGHT)
                               ELSE IF x = ek THEN Mk(1 - col, KING) ELSE 0],
           stm |-> col, cr |-> <<-1,-1,-1,-1>>, ep |-> -1, hmc |-> 0, fmn |-> 1]
ThePos == PosWith(EnemyKing, Mid, Sld, IF extra = 1 THEN Ext ELSE -1)
Emit == IF EnemyKing # -1 /\ OneKingEach(ThePos) /\ Valid(ThePos) THEN PrintT(<<"GEN", CanonFen(ThePos, TRUE)>>) ELSE TRUE
=============================================================================
