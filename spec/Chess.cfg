SPECIFICATION Spec
CONSTRAINT DepthBound
INVARIANT Sample
INVARIANT WellFormed
INVARIANT GenExact
INVARIANT DerivedOK
INVARIANT CheckersAreAttackers
INVARIANT IsLegalOK
INVARIANT Sound
INVARIANT ReachAccepted
INVARIANT FreshEqual
INVARIANT HashPure
INVARIANT StatusOK
INVARIANT NullEnabledOK
INVARIANT BatchesOK
INVARIANT MaskLaw
INVARIANT SameAsSelf
INVARIANT TryPlayOK
PROPERTY SuccOK
PROPERTY NullOK
CHECK_DEADLOCK FALSE
