------------------------------ MODULE Notation ------------------------------
(***************************************************************************)
(* SAN and UCI (C20).  Writer side: the canonical text.  Reader side: the  *)
(* tokens of a query text (code points) and what it means for a legal move *)
(* to match every component written.                                       *)
(***************************************************************************)
EXTENDS Text

\* the components of the canonical SAN of legal move m (lg = Legal(p))
\* castle 0 none / 1 short / 2 long; piece 0 for a pawn; ffile, frank: the disambiguation written (or -1)
SanParts(p, lg, m) ==
  LET b == p.b  s == m[1]  t == m[2]  k == KindOf(b[s])
      succ == Make(p, m)
      inchk == InCheck(succ)
      suffix == IF inchk THEN (IF Legal(succ) = {} THEN "#" ELSE "+") ELSE ""
  IN IF IsCastle(p, m)
     THEN [castle |-> IF FileOf(s) < FileOf(t) THEN 1 ELSE 2, piece |-> 0, ffile |-> -1, frank |-> -1, cap |-> FALSE, to |-> t, promo |-> 0, suffix |-> suffix]
     ELSE LET capture == IsCapture(p, m)
              \* other LEGAL moves of the same kind of piece to the same square (promotions count once)
              froms == {x[1] : x \in {x \in lg : x[1] # s /\ x[2] = t /\ KindOf(b[x[1]]) = k}}
              needFile == IF k = PAWN THEN capture
                          ELSE froms # {} /\ ((\A f \in froms : FileOf(f) # FileOf(s)) \/ ~(\A f \in froms : RankOf(f) # RankOf(s)))
              needRank == k # PAWN /\ froms # {} /\ ~(\A f \in froms : FileOf(f) # FileOf(s))
          IN [castle |-> 0, piece |-> IF k = PAWN THEN 0 ELSE k, ffile |-> IF needFile THEN FileOf(s) ELSE -1,
              frank |-> IF needRank THEN RankOf(s) ELSE -1, cap |-> capture, to |-> t, promo |-> m[3], suffix |-> suffix]
RenderSan(x) == IF x.castle = 1 THEN "O-O" \o x.suffix ELSE IF x.castle = 2 THEN "O-O-O" \o x.suffix
                ELSE (IF x.piece = 0 THEN "" ELSE KindUp(x.piece)) \o (IF x.ffile = -1 THEN "" ELSE FileCh(x.ffile))
                     \o (IF x.frank = -1 THEN "" ELSE RankCh(x.frank)) \o (IF x.cap THEN "x" ELSE "") \o SqName(x.to)
                     \o (IF x.promo # 0 THEN "=" \o KindUp(x.promo) ELSE "") \o x.suffix
San(p, lg, m) == RenderSan(SanParts(p, lg, m))
\* the tokens a reader sees in the canonical SAN
TokensOfParts(x) == [ok |-> TRUE, castle |-> x.castle, piece |-> x.piece, file |-> x.ffile, rank |-> x.frank,
                     dest |-> IF x.castle # 0 THEN -1 ELSE x.to, promo |-> x.promo]

\* boards on which UCI castling notation is defined: every right has the king on e, rooks on a/h
Orthodox(p) == \A c \in 0..1 : (p.cr[2*c+1] = -1 /\ p.cr[2*c+2] = -1) \/
                 (FileOf(KingSq(p.b, c)) = 4 /\ p.cr[2*c+1] \in {-1, 7} /\ p.cr[2*c+2] \in {-1, 0})
Uci(p, m) == LET t == IF IsCastle(p, m) /\ Orthodox(p)
                      THEN SqOf(IF FileOf(m[1]) < FileOf(m[2]) THEN 6 ELSE 2, RankOf(m[1])) ELSE m[2]
             IN SqName(m[1]) \o SqName(t) \o (IF m[3] # 0 THEN KindLo(m[3]) ELSE "")

(* ---- reader side: tokens of a query given as code points ---- *)
CpFile(c) == IF c >= 97 /\ c <= 104 THEN c - 97 ELSE -1          \* a..h
CpRank(c) == IF c >= 49 /\ c <= 56 THEN c - 49 ELSE -1           \* 1..8
CpKindUp(c) == CASE c = 80 -> PAWN [] c = 78 -> KNIGHT [] c = 66 -> BISHOP [] c = 82 -> ROOK
                 [] c = 81 -> QUEEN [] c = 75 -> KING [] OTHER -> 0
NoTok == [ok |-> FALSE, castle |-> 0, piece |-> 0, file |-> -1, rank |-> -1, dest |-> -1, promo |-> 0]
\* castle: 0 none, 1 short, 2 long; piece 0 = not written (a pawn move); promo 0 = not written
SanTokens(cp) ==
  LET n0 == Len(cp)
      n == IF n0 > 0 /\ cp[n0] \in {43, 35} THEN n0 - 1 ELSE n0      \* one optional + or #
      body == SubSeq(cp, 1, n)
  IN IF body = <<79,45,79>> THEN [NoTok EXCEPT !.ok = TRUE, !.castle = 1]
     ELSE IF body = <<79,45,79,45,79>> THEN [NoTok EXCEPT !.ok = TRUE, !.castle = 2]
     ELSE
     LET hasP == n >= 1 /\ CpKindUp(body[n]) # 0
         pr == IF hasP THEN CpKindUp(body[n]) ELSE 0
         n1 == IF hasP THEN (IF n >= 2 /\ body[n-1] = 61 THEN n - 2 ELSE n - 1) ELSE n
     IN IF n1 < 2 \/ CpRank(body[n1]) = -1 \/ CpFile(body[n1-1]) = -1 THEN NoTok ELSE
        LET dest == SqOf(CpFile(body[n1-1]), CpRank(body[n1]))
            n2 == IF n1 - 2 >= 1 /\ body[n1-2] = 120 THEN n1 - 3 ELSE n1 - 2   \* optional x
            hasR == n2 >= 1 /\ CpRank(body[n2]) # -1
            n3 == IF hasR THEN n2 - 1 ELSE n2
            hasF == n3 >= 1 /\ CpFile(body[n3]) # -1
            n4 == IF hasF THEN n3 - 1 ELSE n3
            hasK == n4 >= 1 /\ CpKindUp(body[n4]) # 0
            n5 == IF hasK THEN n4 - 1 ELSE n4
        IN IF n5 # 0 THEN NoTok
           ELSE [ok |-> TRUE, castle |-> 0, piece |-> IF hasK THEN CpKindUp(body[n4]) ELSE 0,
                 file |-> IF hasF THEN CpFile(body[n3]) ELSE -1, rank |-> IF hasR THEN CpRank(body[n2]) ELSE -1,
                 dest |-> dest, promo |-> pr]
\* does legal move m of position p agree with every component written
SanMatches(p, tk, m) ==
  LET s == m[1]  t == m[2]  k == KindOf(p.b[s]) IN
  IF ~tk.ok THEN FALSE
  ELSE IF tk.castle # 0 THEN IsCastle(p, m) /\ (tk.castle = 1) = (FileOf(s) < FileOf(t))
  ELSE /\ k = (IF tk.piece = 0 THEN PAWN ELSE tk.piece)
       /\ (tk.file # -1 => FileOf(s) = tk.file)
       /\ (tk.rank # -1 => RankOf(s) = tk.rank)
       /\ t = tk.dest
       /\ m[3] = tk.promo
=============================================================================
