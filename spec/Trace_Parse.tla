---------------------------- MODULE Trace_Parse ----------------------------
(***************************************************************************)
(* Trace specification for the constructors: FEN / Shredder-FEN parsing    *)
(* (C08), the board builder (C09), soundness and acceptance (C06), the     *)
(* 960 x 960 start-position constructors.                                  *)
(* Same reporting convention as Trace_Board.                               *)
(***************************************************************************)
EXTENDS ImplParse, Json, IOUtils

Recs == ndJsonDeserialize(IOEnv.TRACE)
NRecs == Len(Recs)
VARIABLES l, nviol,
          canon,     \* the last canonical record seen and whether each entry point accepted it: <<cp, ok0, ok1, ok2>>
          base       \* the last builder state that is the image of an accepted board and was accepted again (or <<>>)
vars == <<l, nviol, canon, base>>
IF_(c, S) == IF c THEN S ELSE {}
IsEvent(e) == l <= NRecs /\ Recs[l].ev = e /\ l' = l + 1
Rep(ms) == IF ms = {} THEN TRUE ELSE PrintT(<<"MISMATCH", l, ms>>)
Obs(ms) == Rep(ms) /\ nviol' = nviol + Cardinality(ms)

ToB(arr) == [s \in Sq |-> arr[s+1]]
PosOf(st) == [b |-> ToB(st.b), stm |-> st.stm, cr |-> st.cr, ep |-> st.ep, hmc |-> st.hmc, fmn |-> st.fmn]
BsOf(x) == [b |-> ToB(x.b), stm |-> x.stm, cr |-> x.cr, epsq |-> x.epsq, hmc |-> x.hmc, fmn |-> x.fmn]
ScharnaglT == [n \in 0..959 |-> Scharnagl(n)]

(* ------------------------------- builder ------------------------------- *)
\* the aspects in which two builder states differ (placement and side to move form one aspect)
AspectDiff(x, y) == (IF x.b # y.b \/ x.stm # y.stm THEN {"board"} ELSE {}) \cup (IF x.cr # y.cr THEN {"rights"} ELSE {})
                    \cup (IF x.epsq # y.epsq THEN {"ep"} ELSE {}) \cup (IF x.hmc # y.hmc THEN {"hmc"} ELSE {}) \cup (IF x.fmn # y.fmn THEN {"fmn"} ELSE {})
TraceBuild == /\ IsEvent("build") /\ UNCHANGED canon
  /\ LET r == Recs[l]  bs == BsOf(r.bs)  ok == r.k = "ok"
         wrong == WrongAspects(bs)
         expr == Expressible(bs)
         \* "exactly one aspect of an otherwise valid state is wrong": the state differs from an accepted state in
         \* exactly one aspect, and that aspect (and no other) violates a clause of the soundness statement.
         \* (A changed placement that is sound by those clauses but trips a library-specific rule -- three checkers,
         \*  ep file versus checkers -- is not claimed: which aspect is "wrong" there is the library's own call.)
         diff == IF base = <<>> THEN {} ELSE AspectDiff(bs, base)
         oneAspect == Cardinality(diff) = 1 /\ wrong = diff
         ms ==
        IF_(r.k = "panic", {<<"C09", "build-panicked", r.gen>>})
        \* soundness: what is handed out is structurally sound and is the state that was asked for
        \cup IF_(ok /\ ~ValidBs(bs), {<<"C06", "builder-accepts-unsound-state", r.gen, wrong, Broken(AsPos(bs))>>})
        \cup IF_(ok /\ PosOf(r.st) # AsPos(bs), {<<"C09", "built-board-differs-from-state", r.gen>>})
        \* inexpressible states (a right on the wrong side of the king) are rejected
        \cup IF_(~expr /\ ok, {<<"C09", "inexpressible-state-accepted", r.gen, bs.cr>>})
        \* expressible states: the builder and the parser of the state's record agree
        \cup IF_(expr /\ r.text # RecordOf(bs), {<<"EXT", "harness-record-writer", r.text, RecordOf(bs)>>})
        \cup IF_(expr /\ r.ps.k = "panic", {<<"C08", "parser-panicked", r.text>>})
        \cup IF_(expr /\ r.ps.k # "panic" /\ r.k # "panic" /\ ok # (r.ps.k = "ok"), {<<"C09", "builder-and-parser-disagree", r.gen, r.k, r.err, r.ps.k, r.ps.err, r.text>>})
        \cup IF_(expr /\ ok /\ r.ps.k = "ok" /\ (r.ps.st # r.st \/ ~r.ps.eq), {<<"C09", "builder-and-parser-boards-differ", r.gen, r.text>>})
        \cup IF_(expr /\ r.pp.k # "panic" /\ r.k # "panic" /\ ok # (r.pp.k = "ok"), {<<"C09", "builder-and-fromstr-disagree", r.gen, r.k, r.err, r.pp.k, r.pp.err, r.text>>})
        \cup IF_(expr /\ ok /\ r.pp.k = "ok" /\ (r.pp.st # r.st \/ ~r.pp.eq), {<<"C09", "builder-and-fromstr-boards-differ", r.gen, r.text>>})
        \* exactly one aspect wrong: the error names it
        \cup IF_(oneAspect /\ r.k = "err" /\ r.err # AspectError(CHOOSE a \in diff : TRUE),
                 {<<"C09", "build-error-names-wrong-aspect", r.gen, diff, r.k, r.err>>})
        \cup IF_(oneAspect /\ r.k = "ok", {<<"C09", "state-with-a-wrong-aspect-accepted", r.gen, diff>>})
        \* accepted boards round-trip through the builder
        \cup IF_(ok /\ (r.rb.k # "ok" \/ ~r.rb.eq), {<<"C09", "from-board-round-trip", r.gen, r.rb.k>>})
        \cup IF_(r.gen = "accepted" /\ ~ok, {<<"C09", "builder-image-of-accepted-board-rejected", r.err>>})
        \* strict conformance with the implementation-shaped model of build() (predicts more than C06/C09 state: EXT)
        \cup (LET mdl == BuildImpl(bs) IN
              IF_(r.k # "panic" /\ (ok # (mdl.k = "ok") \/ (~ok /\ mdl.k = "err" /\ r.err # mdl.err)),
                  {<<"EXT", "builder-model-conformance", r.gen, r.k, r.err, mdl.k, IF mdl.k = "err" THEN mdl.err ELSE "">>}))
     IN /\ base' = IF r.gen = "accepted" THEN (IF ok THEN bs ELSE <<>>) ELSE base
        /\ Obs(ms)

(* -------------------------------- parser -------------------------------- *)
\* checks of one entry point (mode 0 from_fen(.., false), 1 from_fen(.., true), 2 FromStr) on one text
ParseChecks(r, mode) ==
  LET x == r.res[mode + 1]  cp == r.cp  ok == x.k = "ok"
      got == PosOf(x.st)
      baseOk == Len(r.base) > 0 /\ canon[1] = r.base /\ canon[mode + 2]
  IN
  IF_(x.k = "panic", {<<"C08", "parser-panicked", mode, r.t>>})
  \cup {Append(v, r.t) : v \in ParseClauses(cp, r.base, baseOk, mode, x.k, x.err, got)}
  \cup IF_(ok /\ x.hb # x.st.h, {<<"C10", "hash-of-parsed-board-differs-from-rebuilt-board", mode, r.t, x.st.h, x.hb>>})
  \cup (LET mdl == ParseImpl(cp, mode) IN
        IF_(x.k # "panic" /\ (ok # (mdl.k = "ok") \/ (~ok /\ mdl.k = "err" /\ x.err # mdl.err) \/ (ok /\ mdl.k = "ok" /\ got # mdl.pos)),
            {<<"EXT", "parser-model-conformance", mode, r.t, x.k, x.err, mdl.k, IF mdl.k = "err" THEN mdl.err ELSE "">>}))

TraceParse == /\ IsEvent("parse")
  /\ LET r == Recs[l]
         isCanon == r.gen = "canonical"
         \* a canonical record of an accepted board: shape, soundness and acceptance are verified here, not assumed
         dS == Denote(r.cp, 1)  dF == Denote(r.cp, 0)
         shredderText == dS.ok /\ RecordOf(dS.bs) = r.t /\ ValidBs(dS.bs)
         fenText == dF.ok /\ ValidBs(dF.bs) /\ AHRights(AsPos(dF.bs))
                    /\ CanonFen(AsPos(dF.bs), FALSE) = r.t
         must0 == fenText  must1 == shredderText  must2 == fenText \/ shredderText
     IN /\ Obs(ParseChecks(r, 0) \cup ParseChecks(r, 1) \cup ParseChecks(r, 2)
               \* canonical records of accepted boards are accepted (both notations through FromStr)
               \cup IF_(isCanon /\ must0 /\ r.res[1].k # "ok", {<<"C08", "canonical-fen-record-rejected", r.res[1].err, r.t>>})
               \cup IF_(isCanon /\ must1 /\ r.res[2].k # "ok", {<<"C08", "canonical-shredder-record-rejected", r.res[2].err, r.t>>})
               \cup IF_(isCanon /\ must2 /\ r.res[3].k # "ok", {<<"C08", "plain-parsing-rejects-canonical-record", r.res[3].err, r.t>>})
               \cup IF_(isCanon /\ ~(must0 \/ must1), {<<"EXT", "harness-canonical-record-not-canonical", r.t>>}))
        /\ UNCHANGED base
        /\ canon' = IF isCanon THEN <<r.cp, must0 /\ r.res[1].k = "ok", must1 /\ r.res[2].k = "ok", must2 /\ r.res[3].k = "ok">> ELSE canon

(* ------------------------- start-position constructors ------------------------- *)
StartT(w, k) ==
  LET aw == ScharnaglT[w]  ab == ScharnaglT[k]  rw == RookFiles(aw)  rb == RookFiles(ab) IN
  [b |-> [s \in Sq |-> CASE RankOf(s) = 0 -> Mk(0, aw[FileOf(s)]) [] RankOf(s) = 1 -> Mk(0, PAWN)
                         [] RankOf(s) = 6 -> Mk(1, PAWN) [] RankOf(s) = 7 -> Mk(1, ab[FileOf(s)]) [] OTHER -> 0],
   stm |-> 0, cr |-> <<rw[2], rw[1], rb[2], rb[1]>>, ep |-> -1, hmc |-> 0, fmn |-> 1]
TraceStart == /\ IsEvent("start") /\ UNCHANGED <<canon, base>>
  /\ LET r == Recs[l]  exp == StartT(r.w, r.k) IN
     Obs(IF_(r.res # "ok", {<<"C06", "start-constructor-panicked", r.w, r.k>>})
         \cup IF_(r.res = "ok" /\ PosOf(r.st) # exp, {<<"C06", "start-position", r.w, r.k>>})
         \cup IF_(r.res = "ok" /\ (Len(r.st.chk) # 0 \/ Len(r.st.pin) # 0), {<<"C03", "start-derived-state", r.w, r.k>>})
         \cup IF_(r.res = "ok" /\ ~r.reparse, {<<"C06", "start-position-not-reaccepted-as-text", r.w, r.k>>})
         \cup IF_(r.res = "ok" /\ ~r.rebuild, {<<"C06", "start-position-not-reaccepted-by-builder", r.w, r.k>>}))
TraceStartOob == /\ IsEvent("start_oob") /\ UNCHANGED <<canon, base>>
  /\ Obs(IF_(~Recs[l].panicked, {<<"EXT", "scharnagl-out-of-range-accepted", Recs[l].w, Recs[l].k>>}))
TraceStartDefault == /\ IsEvent("start_default") /\ UNCHANGED <<canon, base>>
  /\ LET r == Recs[l] IN
     Obs(IF_(PosOf(r.default) # StartT(518, 518) \/ PosOf(r.startpos) # StartT(518, 518), {<<"EXT", "default-start-position">>}))

Init == l = 1 /\ nviol = 0 /\ canon = <<<<>>, FALSE, FALSE, FALSE>> /\ base = <<>>
Next == TraceBuild \/ TraceParse \/ TraceStart \/ TraceStartOob \/ TraceStartDefault
Spec == Init /\ [][Next]_vars
Accepted == IF TLCGet("stats").diameter - 1 = NRecs THEN PrintT(<<"ACCEPTED-LINES", NRecs>>)
            ELSE PrintT(<<"STUCK-AT-LINE", TLCGet("stats").diameter, NRecs>>) /\ FALSE
=============================================================================
