------------------------------- MODULE MC_Coord -------------------------------
(***************************************************************************)
(* Mode A for C19, exhaustive.                                             *)
(*  - Offsets: for every square and EVERY pair of offsets in -128..127     *)
(*    (4 194 304 cases) the non-panicking offset is defined, lands on the  *)
(*    board exactly when plain coordinate arithmetic does, and the set of  *)
(*    successful offset pairs of a square is in bijection with the 64      *)
(*    squares (which is what lets the recorder log a full sweep as 64      *)
(*    entries).                                                            *)
(*  - Text: for every value of every type with a legal shape (all          *)
(*    64 x 64 x 5 moves included) reading the formatted text gives the     *)
(*    value back, formatting is injective, and every one- and two-letter   *)
(*    text over the union alphabet is denoted by at most the value that    *)
(*    formats to it.                                                       *)
(***************************************************************************)
EXTENDS Coord
VARIABLES s, df
vars == <<s, df>>
Init == s \in Sq /\ df = 999
Next == df = 999 /\ UNCHANGED s /\ df' \in -128..127
Spec == Init /\ [][Next]_vars
OffsetTotalAndExact ==
  df = 999 \/ \A dr \in -128..127 :
     LET t == TryOffset(s, df, dr) IN
     /\ t \in Sq \cup {-1}
     /\ (t # -1) <=> (FileOf(s) + df \in 0..7 /\ RankOf(s) + dr \in 0..7)
     /\ (t # -1) => (FileOf(t) - FileOf(s) = df /\ RankOf(t) - RankOf(s) = dr)
SweepIsSixtyFour ==
  df # 999 \/ Cardinality({<<a, b>> \in (-128..127) \X (-8..8) : TryOffset(s, a, b) # -1}) = 64
Types == {"file", "rank", "piece", "color", "square", "move"}
ASSUME \A ty \in Types : \A v \in ValuesOf(ty) : Denote(ty, FmtCp(ty, v)) = v
ASSUME \A ty \in Types : Cardinality({FmtCp(ty, v) : v \in ValuesOf(ty)}) = Cardinality(ValuesOf(ty))
Letters == {97, 98, 104, 105, 119, 112, 110, 113, 107, 49, 48, 56, 57, 65, 66, 87, 32, 45}
ASSUME \A ty \in Types \ {"move"} : \A cp \in {<<a>> : a \in Letters} \cup {<<a, b>> : a \in Letters, b \in Letters} :
          Denote(ty, cp) = <<-1>> \/ FmtCp(ty, Denote(ty, cp)) = cp
\* coordinate functions
ASSUME \A q \in Sq : FlipFile(FlipFile(q)) = q /\ FlipRank(FlipRank(q)) = q /\ SqOf(FileOf(q), RankOf(q)) = q
ASSUME \A q \in Sq : FileOf(FlipFile(q)) = 7 - FileOf(q) /\ RankOf(FlipFile(q)) = RankOf(q) /\ RankOf(FlipRank(q)) = 7 - RankOf(q)
Sample == ~(s = 63 /\ df = 127) \/ PrintT(<<"SAMPLE", "h8 offset (127, dr) is none for every dr", {TryOffset(63, 127, dr) : dr \in -128..127}>>)
=============================================================================
