------------------------------ MODULE Gen_Stale ------------------------------
(***************************************************************************)
(* Scenario synthesis (spec -> impl): TLC SEARCHES for positions in which  *)
(* the side to move is not in check, its king has no legal move, and it    *)
(* owns one more piece that is pinned against the king by an enemy slider  *)
(* (so that this piece has either no legal move at all -- stalemate -- or  *)
(* only moves along the pin line).  These are the positions in which the   *)
(* status function depends on how pinned pieces are generated; random play *)
(* almost never visits them.  The king is confined by an enemy queen       *)
(* (and the enemy king); everything is enumerated, the rules layer decides *)
(* which cases qualify.  Output goes to roots/synth.sfen (committed), so   *)
(* that every check's curated subtrees contain them.                       *)
(* IOEnv.GENCFG: {"mod": m, "rem": r}.                                     *)
(***************************************************************************)
EXTENDS Text, Json, IOUtils
Cfg == JsonDeserialize(IOEnv.GENCFG)
VARIABLES col, ks, d, i, j, pk, sk, qs, eks
vars == <<col, ks, d, i, j, pk, sk, qs, eks>>
NearCorner == {0, 1, 8, 7, 6, 15, 56, 57, 48, 63, 62, 55}
Init == /\ col \in 0..1 /\ ks \in NearCorner /\ d \in 1..8
        /\ j \in 2..Len(Rays[ks][d]) /\ i \in 1..(j - 1)
        /\ pk \in 1..5 /\ sk \in {BISHOP, ROOK, QUEEN}
        /\ (d <= 4 => sk # BISHOP) /\ (d >= 5 => sk # ROOK)            \* the slider really moves along that line
        /\ qs \in {q \in Sq : MaxV(AbsV(FileOf(q) - FileOf(ks)), AbsV(RankOf(q) - RankOf(ks))) \in 2..3}
        /\ eks \in {q \in Sq : MaxV(AbsV(FileOf(q) - FileOf(ks)), AbsV(RankOf(q) - RankOf(ks))) \in 2..3}
        /\ (col * 7919 + ks * 104729 + d * 15485 + i * 32452 + j * 49979 + pk * 86028 + sk * 27644 + qs * 611953 + eks * 3571) % Cfg.mod = Cfg.rem
Next == UNCHANGED vars
Spec == Init /\ [][Next]_vars
PosWith(mid, sld) ==
  [b |-> [x \in Sq |-> IF x = ks THEN Mk(col, KING) ELSE IF x = mid THEN Mk(col, pk) ELSE IF x = sld THEN Mk(1 - col, sk)
                        ELSE IF x = qs THEN Mk(1 - col, QUEEN) ELSE IF x = eks THEN Mk(1 - col, KING) ELSE 0],
   stm |-> col, cr |-> <<-1,-1,-1,-1>>, ep |-> -1, hmc |-> 0, fmn |-> 1]
ThePos == PosWith(Rays[ks][d][i], Rays[ks][d][j])
Distinct == Cardinality({ks, Rays[ks][d][i], Rays[ks][d][j], qs, eks}) = 5 /\ (pk = PAWN => RankOf(Rays[ks][d][i]) \in 1..6)
Emit == IF Distinct /\ OneKingEach(ThePos) /\ Valid(ThePos) /\ ~InCheck(ThePos)
           /\ (LET lg == Legal(ThePos) IN \A m \in lg : m[1] # ks)
        THEN PrintT(<<"GEN", CanonFen(ThePos, TRUE), Cardinality(Legal(ThePos)), pk, sk, d>>) ELSE TRUE
=============================================================================
