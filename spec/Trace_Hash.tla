----------------------------- MODULE Trace_Hash -----------------------------
(***************************************************************************)
(* C11: the position hash separates positions that differ in 1..4          *)
(* features.  The keys of the (constant) Zobrist table are extracted       *)
(* black-box as hash differences of pairs of accepted boards; this trace   *)
(* specification                                                           *)
(*  - verifies each pair really differs in exactly the claimed feature     *)
(*    (symmetric difference of Features, Position.tla),                    *)
(*  - requires a feature's key to be independent of the pair it was        *)
(*    extracted from, and validates the linear model                       *)
(*       hash = XOR of the keys of Features(pos)                           *)
(*    on further boards,                                                   *)
(*  - and then decides, with TLC doing the arithmetic on 16-bit limbs      *)
(*    (Bitwise), that no XOR of 1..4 distinct realisable feature keys is 0.*)
(***************************************************************************)
EXTENDS Rules, Bitwise, Json, IOUtils

Recs == ndJsonDeserialize(IOEnv.TRACE)
NRecs == Len(Recs)
VARIABLES l, nviol,
          keys,    \* feature -> key as four 16-bit limbs; king keys as <<"kr", colour, square>> relative to e1 / e8
          h0       \* hash limbs of the reference board (kings e1 e8, white to move, nothing else)
vars == <<l, nviol, keys, h0>>
IF_(c, S) == IF c THEN S ELSE {}
IsEvent(e) == l <= NRecs /\ Recs[l].ev = e /\ l' = l + 1
Rep(ms) == IF ms = {} THEN TRUE ELSE PrintT(<<"MISMATCH", l, ms>>)
Obs(ms) == Rep(ms) /\ nviol' = nviol + Cardinality(ms)
ToB(arr) == [s \in Sq |-> arr[s+1]]
PosOf(st) == [b |-> ToB(st.b), stm |-> st.stm, cr |-> st.cr, ep |-> st.ep, hmc |-> st.hmc, fmn |-> st.fmn]

Zero == <<0, 0, 0, 0>>
XorL(a, b) == <<a[1] ^^ b[1], a[2] ^^ b[2], a[3] ^^ b[3], a[4] ^^ b[4]>>
RECURSIVE XorAll(_)
XorAll(S) == IF S = {} THEN Zero ELSE LET x == CHOOSE x \in S : TRUE IN XorL(x, XorAll(S \ {x}))
S0(c) == IF c = 0 THEN 4 ELSE 60
IsKingF(f) == f[1] = "pc" /\ KindOf(f[2]) = KING
RefBoard == [b |-> [s \in Sq |-> IF s = 4 THEN Mk(0, KING) ELSE IF s = 60 THEN Mk(1, KING) ELSE 0],
             stm |-> 0, cr |-> <<-1,-1,-1,-1>>, ep |-> -1]

TraceKey == /\ IsEvent("key")
  /\ LET r == Recs[l]  p == PosOf(r.a)  q == PosOf(r.o)
         fa == Features(p)  fo == Features(q)
         d == (fa \ fo) \cup (fo \ fa)
         x == XorL(r.ha, r.ho)
         isRef == q.b = RefBoard.b /\ q.stm = 0 /\ q.cr = RefBoard.cr /\ q.ep = -1
         kingPair == Cardinality(d) = 2 /\ \A f \in d : IsKingF(f)
         f == IF kingPair
              THEN LET c == ColorOf((CHOOSE g \in d : TRUE)[2])  s == CHOOSE s \in Sq : <<"pc", Mk(c, KING), s>> \in d /\ s # S0(c)
                   IN IF <<"pc", Mk(c, KING), S0(c)>> \in d THEN <<"kr", c, s>> ELSE <<"bad">>
              ELSE IF Cardinality(d) = 1 THEN CHOOSE g \in d : TRUE ELSE <<"bad">>
     IN /\ Obs(IF_(f = <<"bad">>, {<<"EXT", "extraction-pair-differs-in-more-than-one-feature", r.what, d>>})
               \cup IF_(f # <<"bad">> /\ x = Zero, {<<"C11", "single-feature-difference-does-not-change-hash", f>>})
               \cup IF_(f # <<"bad">> /\ f \in DOMAIN keys /\ keys[f] # x, {<<"C11", "key-of-a-feature-depends-on-the-rest-of-the-position", f, keys[f], x>>}))
        /\ keys' = IF f # <<"bad">> /\ f \notin DOMAIN keys THEN keys @@ (f :> x) ELSE keys
        /\ h0' = IF isRef THEN r.ho ELSE h0

TraceExtracted == /\ IsEvent("extracted") /\ UNCHANGED <<keys, h0>>
  /\ LET nonking == {f \in DOMAIN keys : f[1] # "kr"} IN
     Obs(IF_(Cardinality(nonking) # 633, {<<"EXT", "extraction-incomplete-nonking", Cardinality(nonking)>>})
         \cup IF_(Cardinality(DOMAIN keys \ nonking) # 126, {<<"EXT", "extraction-incomplete-king", Cardinality(DOMAIN keys \ nonking)>>})
         \cup IF_(h0 = Zero, {<<"EXT", "no-reference-board">>}))

\* the linear model on an arbitrary board
RECURSIVE XorFeat(_)
XorFeat(F) == IF F = {} THEN Zero ELSE LET f == CHOOSE f \in F : TRUE IN XorL(keys[f], XorFeat(F \ {f}))
Model2(p) == LET fs == {f \in Features(p) : ~IsKingF(f)}
                 kw == KingSq(p.b, 0)  kb == KingSq(p.b, 1)
                 a == IF kw = 4 THEN Zero ELSE keys[<<"kr", 0, kw>>]
                 b == IF kb = 60 THEN Zero ELSE keys[<<"kr", 1, kb>>]
             IN XorL(h0, XorL(XorFeat(fs), XorL(a, b)))
TraceLin == /\ IsEvent("lin") /\ UNCHANGED <<keys, h0>>
  /\ LET r == Recs[l]  p == PosOf(r.a)
         known == \A f \in Features(p) : IsKingF(f) \/ f \in DOMAIN keys IN
     Obs(IF_(known /\ Model2(p) # r.ha, {<<"C11", "hash-is-not-the-xor-of-its-feature-keys", r.ha, Model2(p)>>}))

\* two accepted boards whose positions differ in one to four elementary features (a right counted per colour AND wing)
\* must not have the same hash
TracePairH == /\ IsEvent("pairh") /\ UNCHANGED <<keys, h0>>
  /\ LET r == Recs[l]  p == PosOf(r.a)  q == PosOf(r.o)
         dist == Cardinality({s \in Sq : p.b[s] # q.b[s]}) + (IF p.stm # q.stm THEN 1 ELSE 0)
                 + Cardinality({i \in 1..4 : p.cr[i] # q.cr[i]}) + (IF p.ep # q.ep THEN 1 ELSE 0)
     IN Obs(IF_(dist >= 1 /\ dist <= 4 /\ r.ha = r.ho, {<<"C11", "boards-at-small-feature-distance-have-equal-hashes", dist, p.cr, q.cr>>}))

\* the extracted table as the recorder summarises it must be exactly the validated keys
TraceTable == /\ IsEvent("table") /\ UNCHANGED <<keys, h0>>
  /\ LET r == Recs[l]
         rows == {<<r.rows[i].f, r.rows[i].k>> : i \in 1..Len(r.rows)}
         mine == {<<f, keys[f]>> : f \in DOMAIN keys}
         nk == {f \in DOMAIN keys : f[1] # "kr"}
         krs(c) == {f \in DOMAIN keys : f[1] = "kr" /\ f[2] = c}
     IN Obs(IF_(rows # mine, {<<"EXT", "table-differs-from-validated-keys", Cardinality(rows), Cardinality(mine)>>})
            \cup IF_(Len(r.nonking) # Cardinality(nk) \/ {r.nonking[i] : i \in 1..Len(r.nonking)} # {keys[f] : f \in nk}, {<<"EXT", "table-nonking-list">>})
            \cup IF_(Len(r.kr0) # Cardinality(krs(0)) \/ {r.kr0[i] : i \in 1..Len(r.kr0)} # {keys[f] : f \in krs(0)}, {<<"EXT", "table-king-list-white">>})
            \cup IF_(Len(r.kr1) # Cardinality(krs(1)) \/ {r.kr1[i] : i \in 1..Len(r.kr1)} # {keys[f] : f \in krs(1)}, {<<"EXT", "table-king-list-black">>}))

\* the arithmetic decision is taken at constant level by MC_HashKeys.tla on the same trace file
TraceDecide == IsEvent("decide") /\ UNCHANGED <<keys, h0>> /\ Obs({})

Init == l = 1 /\ nviol = 0 /\ keys = <<>> /\ h0 = Zero
Next == TraceKey \/ TraceExtracted \/ TraceLin \/ TraceTable \/ TraceDecide \/ TracePairH
Spec == Init /\ [][Next]_vars
Accepted == IF TLCGet("stats").diameter - 1 = NRecs THEN PrintT(<<"ACCEPTED-LINES", NRecs>>)
            ELSE PrintT(<<"STUCK-AT-LINE", TLCGet("stats").diameter, NRecs>>) /\ FALSE
=============================================================================
