-------------------------------- MODULE Coord --------------------------------
(***************************************************************************)
(* Text forms of the coordinate types (C19) as languages over code points: *)
(* Denote(ty, cp) is the value a text denotes (or <<-1>>), FmtCp(ty, v)    *)
(* the text formatting produces.  Used by Trace_Values (judging the real   *)
(* parsers) and by MC_Coord (the languages are exact inverses).            *)
(***************************************************************************)
EXTENDS Rules

CpFileT(c) == IF c >= 97 /\ c <= 104 THEN c - 97 ELSE -1
CpRankT(c) == IF c >= 49 /\ c <= 56 THEN c - 49 ELSE -1
CpKindLo(c) == CASE c = 112 -> PAWN [] c = 110 -> KNIGHT [] c = 98 -> BISHOP [] c = 114 -> ROOK
                 [] c = 113 -> QUEEN [] c = 107 -> KING [] OTHER -> 0
\* the value a text denotes, as the tuple the recorder logs, or <<-1>> when the text is not in the language
Denote(ty, cp) ==
  LET n == Len(cp) IN
  CASE ty = "file" -> IF n = 1 /\ CpFileT(cp[1]) # -1 THEN <<CpFileT(cp[1])>> ELSE <<-1>>
    [] ty = "rank" -> IF n = 1 /\ CpRankT(cp[1]) # -1 THEN <<CpRankT(cp[1])>> ELSE <<-1>>
    [] ty = "piece" -> IF n = 1 /\ CpKindLo(cp[1]) # 0 THEN <<CpKindLo(cp[1])>> ELSE <<-1>>
    [] ty = "color" -> IF n = 1 /\ cp[1] \in {119, 98} THEN <<IF cp[1] = 119 THEN 0 ELSE 1>> ELSE <<-1>>
    [] ty = "square" -> IF n = 2 /\ CpFileT(cp[1]) # -1 /\ CpRankT(cp[2]) # -1 THEN <<SqOf(CpFileT(cp[1]), CpRankT(cp[2]))>> ELSE <<-1>>
    [] ty = "move" -> IF /\ n \in {4, 5} /\ CpFileT(cp[1]) # -1 /\ CpRankT(cp[2]) # -1 /\ CpFileT(cp[3]) # -1 /\ CpRankT(cp[4]) # -1
                         /\ (n = 5 => CpKindLo(cp[5]) \in {KNIGHT, BISHOP, ROOK, QUEEN})
                      THEN <<SqOf(CpFileT(cp[1]), CpRankT(cp[2])), SqOf(CpFileT(cp[3]), CpRankT(cp[4])), IF n = 5 THEN CpKindLo(cp[5]) ELSE 0>>
                      ELSE <<-1>>

\* the text formatting produces for a value (same tuple shape as Denote's result)
SqCp(q) == <<97 + FileOf(q), 49 + RankOf(q)>>
KindLoCp(k) == <<112, 110, 98, 114, 113, 107>>[k]
FmtCp(ty, v) ==
  CASE ty = "file" -> <<97 + v[1]>>
    [] ty = "rank" -> <<49 + v[1]>>
    [] ty = "piece" -> <<KindLoCp(v[1])>>
    [] ty = "color" -> <<IF v[1] = 0 THEN 119 ELSE 98>>
    [] ty = "square" -> SqCp(v[1])
    [] ty = "move" -> SqCp(v[1]) \o SqCp(v[2]) \o (IF v[3] = 0 THEN <<>> ELSE <<KindLoCp(v[3])>>)
\* the values of each type that have a legal shape
ValuesOf(ty) ==
  CASE ty = "file" -> {<<f>> : f \in 0..7}
    [] ty = "rank" -> {<<r>> : r \in 0..7}
    [] ty = "piece" -> {<<k>> : k \in 1..6}
    [] ty = "color" -> {<<c>> : c \in 0..1}
    [] ty = "square" -> {<<q>> : q \in Sq}
    [] ty = "move" -> {<<a, b, k>> : a \in Sq, b \in Sq, k \in {0, KNIGHT, BISHOP, ROOK, QUEEN}}
=============================================================================
