----------------------------- MODULE Ind_PMIter -----------------------------
(***************************************************************************)
(* The PieceMovesIter state machine of MC_PMIter.tla once more, typed for  *)
(* Apalache, with an INDUCTIVE invariant: where MC_PMIter lets TLC visit   *)
(* every state over a 7-square universe, this module shows for ALL 2^64    *)
(* destination sets that                                                   *)
(*   - every yielded move is one the batch prescribes (alien stays FALSE), *)
(*   - moves come out strictly increasing in (destination, promotion), so  *)
(*     nothing is yielded twice (unordered stays FALSE),                   *)
(*   - the remaining length is exact at every prefix (LenOK), hence on     *)
(*     exhaustion exactly PMLen moves, i.e. all of them, were yielded.     *)
(* Checked as  Init => IndInv  (length 0) and  IndInv /\ Next => IndInv'   *)
(* (length 1 from IndInit).                                                *)
(***************************************************************************)
EXTENDS Integers, FiniteSets, Apalache

VARIABLES
  \* @type: Int;
  piece,
  \* @type: Set(Int);
  to,
  \* @type: Int;
  promo,
  \* @type: Int;
  cnt,
  \* @type: Int;
  lastT,
  \* @type: Int;
  lastK,
  \* @type: Bool;
  alien,
  \* @type: Bool;
  unordered,
  \* @type: Set(Int);
  to0

Sq == 0..63
IsPromoDest(p, t) == p = 1 /\ (t \div 8 = 0 \/ t \div 8 = 7)
IsMin(t, S) == t \in S /\ \A u \in S : t <= u
Weight(p, t) == IF IsPromoDest(p, t) THEN 4 ELSE 1
\* PieceMoves::len of a destination set
\* @type: (Int, Set(Int)) => Int;
PMLen(p, S) == ApaFoldSet(LAMBDA acc, t: acc + Weight(p, t), 0, S)
\* is <<t, k>> one of the moves the batch (p, S) prescribes
Prescribed(p, S, t, k) == t \in S /\ (IF IsPromoDest(p, t) THEN k \in 2..5 ELSE k = 0)
Before(t1, k1, t2, k2) == t1 < t2 \/ (t1 = t2 /\ k1 < k2)

Init == /\ piece \in 1..6 /\ to \in SUBSET Sq /\ to0 = to /\ promo = 0 /\ cnt = 0
        /\ lastT = -1 /\ lastK = 0 /\ alien = FALSE /\ unordered = FALSE

Yield(t, k) == /\ alien' = (alien \/ ~Prescribed(piece, to0, t, k))
               /\ unordered' = (unordered \/ ~Before(lastT, lastK, t, k))
               /\ lastT' = t /\ lastK' = k /\ cnt' = cnt + 1

Next == \/ /\ to # {}
           /\ \E t \in to :
                /\ IsMin(t, to)
                /\ IF IsPromoDest(piece, t)
                   THEN /\ Yield(t, promo + 2)
                        /\ IF promo < 3 THEN promo' = promo + 1 /\ to' = to
                                        ELSE promo' = 0 /\ to' = to \ {t}
                   ELSE /\ Yield(t, 0) /\ to' = to \ {t} /\ promo' = promo
           /\ UNCHANGED <<piece, to0>>
        \/ to = {} /\ UNCHANGED <<piece, to, promo, cnt, lastT, lastK, alien, unordered, to0>>   \* exhausted: next() = None

\* ---- what the user relies on ----
LenOK == (PMLen(piece, to) - promo) + cnt = PMLen(piece, to0)            \* ExactSizeIterator::len at every prefix
DoneOK == to = {} => (promo = 0 /\ cnt = PMLen(piece, to0))
Clean == ~alien /\ ~unordered

\* ---- the inductive invariant ----
IndInv ==
  /\ piece \in 1..6 /\ to0 \subseteq Sq /\ to \subseteq to0 /\ promo \in 0..3 /\ cnt >= 0
  /\ Clean
  /\ promo > 0 => \E t \in to : IsMin(t, to) /\ IsPromoDest(piece, t) /\ lastT = t /\ lastK = promo + 1
  /\ promo = 0 => \A u \in to : lastT < u                                \* the last yield lies below everything left
  /\ lastT \in Sq \cup {-1} /\ lastK \in 0..5
  /\ LenOK /\ DoneOK

IndInit ==
  /\ piece \in 1..6 /\ to0 \in SUBSET Sq /\ to \in SUBSET Sq /\ promo \in 0..3 /\ cnt \in 0..256
  /\ lastT \in -1..63 /\ lastK \in 0..5 /\ alien \in BOOLEAN /\ unordered \in BOOLEAN
  /\ IndInv
=============================================================================
