---------------------------- MODULE Trace_Board ----------------------------
(***************************************************************************)
(* Trace specification for recorded executions of the real `Board`         *)
(* (impl -> spec).  One action per event kind; every logged observation is *)
(* compared with the value the specification computes from the abstract    *)
(* position.  Mismatches do not block the trace: they are printed as       *)
(*   <<"MISMATCH", line, {<<property, check, details...>>, ...}>>          *)
(* and counted, so one run reports every divergent event of a shard.       *)
(* The trace is accepted when every line was consumed and nviol = 0.       *)
(* Which families of checks are evaluated is selected by environment       *)
(* variables C01=1, C02=1, ... (cost control; verdicts do not depend on it)*)
(***************************************************************************)
EXTENDS Notation, Json, IOUtils

Recs == ndJsonDeserialize(IOEnv.TRACE)
NRecs == Len(Recs)
Env == IOEnv
Has(name) == name \in DOMAIN Env /\ Env[name] = "1"
C01 == Has("C01")  C02 == Has("C02")  C03 == Has("C03")  C04 == Has("C04")  C06 == Has("C06")
C07 == Has("C07")  C09 == Has("C09")  C10 == Has("C10")  C12 == Has("C12")  C13 == Has("C13")
C11 == Has("C11")  C14 == Has("C14")  C15 == Has("C15")  C16 == Has("C16")  C20 == Has("C20")  EXT == Has("EXT")
NeedLegal == C01 \/ C02 \/ C04 \/ C12 \/ C15 \/ C16 \/ C20

VARIABLES l,        \* next line to consume
          cur,      \* the last logged state record (projection incl. chk, pin, h, hn)
          pos,      \* its abstract position
          lg,       \* Legal(pos) when some enabled check needs it
          usable,   \* the state has exactly one king per side (the definitions apply)
          reach,    \* the current history started from a start-position constructor: its states are reachable by play
          spos,     \* the position the RULES give for this history (Make / NullMake from the reset state), while the
                    \* library's own successors are only logged; equal to pos unless a successor was wrong
          nviol
vars == <<l, cur, pos, lg, usable, reach, spos, nviol>>

ToB(arr) == [s \in Sq |-> arr[s+1]]
PosOf(st) == [b |-> ToB(st.b), stm |-> st.stm, cr |-> st.cr, ep |-> st.ep, hmc |-> st.hmc, fmn |-> st.fmn]
MoveSet(q) == {q[i] : i \in 1..Len(q)}
IF_(c, S) == IF c THEN S ELSE {}

IsEvent(e) == l <= NRecs /\ Recs[l].ev = e /\ l' = l + 1
Rep(ms) == IF ms = {} THEN TRUE ELSE PrintT(<<"MISMATCH", l, ms>>)

\* checks that every logged state must pass (C03 derived data, C06 soundness)
StateChecks(st, p) ==
  IF ~OneKingEach(p) THEN IF_(C06, {<<"C06", "unsound", Broken(p)>>})
  ELSE IF_(C06 /\ ~Valid(p), {<<"C06", "unsound", Broken(p)>>})
       \cup IF_(C03 /\ SetOfSeq(st.chk) # Checkers(p), {<<"C03", "checkers", Checkers(p), st.chk>>})
       \cup IF_(C03 /\ SetOfSeq(st.pin) # Pinned(p), {<<"C03", "pinned", Pinned(p), st.pin>>})
       \cup IF_(C10 /\ st.ep = -1 /\ st.hn # st.h, {<<"C10", "hash-without-ep-differs-without-ep">>})
       \cup IF_(C10 /\ st.ep # -1 /\ st.hn = st.h, {<<"C10", "ep-not-in-hash">>})

\* move to a new logged state
Goto(st, ms0) ==
  LET p == PosOf(st)  ms == ms0 \cup StateChecks(st, p) IN
  /\ Rep(ms)
  /\ nviol' = nviol + Cardinality(ms)
  /\ cur' = st /\ pos' = p
  /\ usable' = OneKingEach(p)
  /\ lg' = IF NeedLegal /\ OneKingEach(p) THEN Legal(p) ELSE {}
\* an observation on the current state
Obs(ms) == /\ Rep(ms) /\ nviol' = nviol + Cardinality(ms) /\ UNCHANGED <<cur, pos, lg, usable, reach, spos>>

(* ------------------------- state-changing events ------------------------- *)
TraceReset == IsEvent("reset") /\ Goto(Recs[l].st, {}) /\ reach' = (Recs[l].src \in {"start960", "dfrc", "default"})
              /\ spos' = PosOf(Recs[l].st)

TracePlay == /\ UNCHANGED reach /\ IsEvent("play")
  /\ spos' = (LET r == Recs[l] IN
              IF r.res = "ok" /\ usable /\ OneKingEach(spos) /\ r.m \in (IF spos = pos /\ NeedLegal THEN lg ELSE Legal(spos))
              THEN Make(spos, r.m) ELSE IF r.res = "ok" THEN PosOf(r.st) ELSE spos)
  /\ LET r == Recs[l]  m == r.m  logged == PosOf(r.st)  legal == m \in lg IN
     IF ~usable THEN Goto(r.st, {}) ELSE
     Goto(r.st,
       IF r.res = "ok" THEN
          IF_((C02 \/ C15) /\ NeedLegal /\ ~legal /\ r.api # "unchecked", {<<"C15", "illegal-move-accepted", r.api, m>>})
          \cup IF_(C02 /\ legal /\ Make(pos, m) # logged, {<<"C02", "successor", m, Make(pos, m), logged>>})
          \cup IF_(C11 /\ r.st.h = cur.h, {<<"C11", "move-does-not-change-hash", m>>})
       ELSE \* err (try_play) or panic (play): the move must be illegal and the board untouched
          IF_(C15 /\ legal, {<<"C15", "legal-move-refused", r.api, r.res, m>>})
          \cup IF_(C15 /\ r.res = "panic" /\ r.api # "play", {<<"C15", "unexpected-panic", r.api, m>>})
          \cup IF_(C15 /\ r.res = "err" /\ r.api # "try", {<<"C15", "unexpected-result", r.api, m>>})
          \cup IF_(C15 /\ r.st # cur, {<<"C15", "board-changed-by-refused-move", m>>}))

TraceNull == /\ UNCHANGED reach /\ IsEvent("null")
  /\ spos' = (LET r == Recs[l] IN IF r.res = "some" /\ OneKingEach(spos) /\ NullOk(spos) THEN NullMake(spos)
                                ELSE IF r.res = "some" THEN PosOf(r.st) ELSE spos)
  /\ LET r == Recs[l]  logged == PosOf(r.st)  ok == NullOk(pos) IN
     IF ~usable THEN Goto(r.st, {}) ELSE
     Goto(r.st,
          IF_(C14 /\ r.res = "panic", {<<"C14", "null-panic">>})
          \cup IF_(C14 /\ r.res # "panic" /\ (r.res = "some") # ok, {<<"C14", "null-enabled", ok, r.res>>})
          \cup IF_(C14 /\ r.res = "some" /\ ok /\ logged # NullMake(pos), {<<"C14", "null-successor", NullMake(pos), logged>>})
          \cup IF_(C14 /\ r.res = "none" /\ r.st # cur, {<<"C14", "board-changed-by-refused-null">>})
          \cup IF_(C14 /\ r.res = "some" /\ SetOfSeq(r.st.chk) # {}, {<<"C14", "null-checkers">>})
          \cup IF_(C11 /\ r.res = "some" /\ r.st.h = cur.h, {<<"C11", "null-move-does-not-change-hash">>})
          \cup IF_(C14 /\ r.res = "some" /\ r.fh # r.st.h, {<<"C14", "null-hash-differs-from-freshly-constructed-board", r.st.h, r.fh>>})
          \cup IF_(C14 /\ r.res = "some" /\ ~r.feq, {<<"C14", "null-result-differs-from-freshly-constructed-board">>})
          \cup IF_(C14 /\ r.res = "some" /\ OneKingEach(logged) /\ SetOfSeq(r.st.pin) # Pinned(logged), {<<"C14", "null-pinned", Pinned(logged), r.st.pin>>}))

\* clock setters (beyond the listed properties): range check, nothing else moves
TraceSetHmc == /\ UNCHANGED reach /\ IsEvent("sethmc")
  /\ spos' = (IF Recs[l].res = "ok" THEN [spos EXCEPT !.hmc = Recs[l].n] ELSE spos)
  /\ LET r == Recs[l]  okx == r.n <= 100
         exp == IF okx THEN [cur EXCEPT !.hmc = r.n] ELSE cur IN
     Goto(r.st, IF_(EXT /\ (r.res = "ok") # okx, {<<"EXT", "set-halfmove-range", r.n, r.res>>})
                \cup IF_(EXT /\ r.st # exp, {<<"EXT", "set-halfmove-state", r.n>>}))
TraceSetFmn == /\ UNCHANGED reach /\ IsEvent("setfmn")
  /\ spos' = (IF Recs[l].res = "ok" THEN [spos EXCEPT !.fmn = Recs[l].n] ELSE spos)
  /\ LET r == Recs[l]  okx == r.n > 0
         exp == IF okx THEN [cur EXCEPT !.fmn = r.n] ELSE cur IN
     Goto(r.st, IF_(EXT /\ (r.res = "ok") # okx, {<<"EXT", "set-fullmove-range", r.n, r.res>>})
                \cup IF_(EXT /\ r.st # exp, {<<"EXT", "set-fullmove-state", r.n>>}))

(* ----------------------------- observations ----------------------------- *)
\* a batch is <<piece kind, from, <<to...>>>>
BatchMoves(bt) == UNION {IF bt[1] = PAWN /\ RankOf(t) \in {0, 7} THEN {<<bt[2], t, k>> : k \in 2..5}
                         ELSE {<<bt[2], t, 0>>} : t \in SetOfSeq(bt[3])}
BatchLen(bt) == IF bt[1] = PAWN
                THEN Cardinality({t \in SetOfSeq(bt[3]) : RankOf(t) \notin {0,7}}) + 4 * Cardinality({t \in SetOfSeq(bt[3]) : RankOf(t) \in {0,7}})
                ELSE Cardinality(SetOfSeq(bt[3]))
RECURSIVE SumLen(_,_)
SumLen(bs, i) == IF i > Len(bs) THEN 0 ELSE BatchLen(bs[i]) + SumLen(bs, i+1)
MovesOfBatches(bs) == UNION {BatchMoves(bs[i]) : i \in 1..Len(bs)}

GenChecks(bs, expect, panic, ret, tag) ==
  LET got == MovesOfBatches(bs) IN
  IF_(panic, {<<tag, "generation-panicked">>})
  \cup IF_(~panic /\ got # expect, {<<tag, "moves", got \ expect, expect \ got>>})
  \cup IF_(~panic /\ SumLen(bs, 1) # Cardinality(got), {<<tag, "duplicate-move">>})
  \cup IF_(\E i \in 1..Len(bs) : pos.b[bs[i][2]] # Mk(pos.stm, bs[i][1]), {<<tag, "batch-piece">>})
ContractChecks(bs, panic, ret) ==
  IF_(C16 /\ \E i \in 1..Len(bs) : Len(bs[i][3]) = 0, {<<"C16", "empty-batch">>})
  \cup IF_(C16 /\ Len(bs) > 18, {<<"C16", "more-than-18-batches", Len(bs)>>})
  \cup IF_(C16 /\ ~panic /\ ret, {<<"C16", "returned-true-without-abort">>})

TraceGen == /\ IsEvent("gen")
  /\ LET r == Recs[l] IN
     IF ~usable THEN Obs({}) ELSE
     Obs(IF_(C01, GenChecks(r.bt, lg, r.panic, r.ret, "C01")) \cup ContractChecks(r.bt, r.panic, r.ret)
         \* the position this history leads to BY THE RULES (differs from the logged one only after a wrong successor)
         \cup IF_(C01 /\ spos # pos /\ OneKingEach(spos) /\ ~r.panic /\ MovesOfBatches(r.bt) # Legal(spos),
                 {<<"C01", "moves-are-not-the-legal-moves-of-the-position-the-history-leads-to", MovesOfBatches(r.bt) \ Legal(spos), Legal(spos) \ MovesOfBatches(r.bt)>>}))

TraceGenFor == /\ IsEvent("genfor")
  /\ LET r == Recs[l]  mask == SetOfSeq(r.mask) IN
     IF ~usable THEN Obs({}) ELSE
     Obs(IF_(C16, GenChecks(r.bt, {m \in lg : m[1] \in mask}, r.panic, r.ret, "C16")) \cup ContractChecks(r.bt, r.panic, r.ret))

\* runs: <<j, calls, ret>> for a listener that returns true on its (j+1)-th call; ret 1 true, 0 false, 2 panic
TraceAbort == /\ IsEvent("abort")
  /\ LET r == Recs[l]  mask == SetOfSeq(r.mask)  exp == {m \in lg : m[1] \in mask} IN
     IF ~usable THEN Obs({}) ELSE
     Obs(IF_(C16 /\ \E i \in 1..Len(r.runs) : r.runs[i][2] # r.runs[i][1] + 1 \/ r.runs[i][3] # 1,
             {<<"C16", "abort-contract", {r.runs[i] : i \in {i \in 1..Len(r.runs) : r.runs[i][2] # r.runs[i][1] + 1 \/ r.runs[i][3] # 1}}>>})
         \cup IF_(C16 /\ r.total > 18, {<<"C16", "more-than-18-batches", r.total>>})
         \cup IF_(C16 /\ (r.total = 0) # (exp = {}), {<<"C16", "batch-count-vs-moves", r.total>>}))

TraceIsLegal == /\ IsEvent("islegal")
  /\ LET r == Recs[l]  got == MoveSet(r.t) IN
     IF ~usable THEN Obs({}) ELSE
     Obs(IF_(C04 /\ got # lg, {<<"C04", "is-legal-sweep", got \ lg, lg \ got>>})
         \cup IF_(C04 /\ Len(r.panics) # 0, {<<"C04", "is-legal-panicked", r.panics>>}))

TraceTryPlay == /\ IsEvent("tryplay")
  /\ LET r == Recs[l]  got == MoveSet(r.ok)  tried == MoveSet(r.tried)  pk == MoveSet(r.panicked) IN
     IF ~usable THEN Obs({}) ELSE
     Obs(IF_(C15 /\ got # lg, {<<"C15", "try-play-accepts", got \ lg, lg \ got>>})
         \cup IF_(C15 /\ Len(r.bad_err) # 0, {<<"C15", "board-changed-by-refused-move", r.bad_err>>})
         \cup IF_(C15 /\ Len(r.bad_ok) # 0, {<<"C15", "try-play-differs-from-unchecked", r.bad_ok>>})
         \cup IF_(C15 /\ Len(r.panics) # 0, {<<"C15", "try-play-panicked", r.panics>>})
         \cup IF_(C15 /\ pk # tried \ lg, {<<"C15", "play-panics", pk \ (tried \ lg), (tried \ lg) \ pk>>})
         \cup IF_(C15 /\ Len(r.bad_play) # 0, {<<"C15", "play-differs-from-unchecked", r.bad_play>>}))

StatusOf(p, legal) == IF legal = {} THEN (IF InCheck(p) THEN "won" ELSE "drawn")
                      ELSE IF p.hmc >= 100 THEN "drawn" ELSE "ongoing"
TraceStatus == /\ IsEvent("status")
  /\ LET r == Recs[l] IN
     IF ~usable THEN Obs({}) ELSE
     Obs(IF_(C12 /\ r.s # StatusOf(pos, lg), {<<"C12", "status", StatusOf(pos, lg), r.s>>}))

\* a re-read of the board's own text: must succeed, be == and project to the same state
RoundTrip(x, text, name, needAgain) ==
  IF_(x.k # "ok", {<<"C07", name \o "-rejected", x.k, x.again>>})
  \cup IF_(C06 /\ reach /\ x.k # "ok", {<<"C06", "reachable-position-not-reaccepted-as-text", name, x.k, x.again>>})
  \cup IF_(x.k = "ok" /\ ~x.eq, {<<"C07", name \o "-not-equal">>})
  \cup IF_(x.k = "ok" /\ x.st # cur, {<<"C07", name \o "-state">>})
  \cup IF_(x.k = "ok" /\ needAgain /\ x.again # text, {<<"C07", name \o "-reformat", x.again>>})
TraceText == /\ IsEvent("text")
  /\ LET r == Recs[l]  sf == CanonFen(pos, TRUE)  pf == CanonFen(pos, FALSE) IN
     IF ~usable \/ ~(C07 \/ C06) THEN Obs({}) ELSE
     Obs(IF_(r.sfen # sf, {<<"C07", "shredder-text", sf, r.sfen>>})
         \cup IF_(r.fen # pf, {<<"C07", "fen-text", pf, r.fen>>})
         \cup RoundTrip(r.rs, r.sfen, "shredder", TRUE)
         \cup RoundTrip(r.ps, r.sfen, "fromstr-shredder", FALSE)
         \cup IF_(AHRights(pos), RoundTrip(r.rf, r.fen, "fen", TRUE) \cup RoundTrip(r.pf, r.fen, "fromstr-fen", FALSE)))

TraceRebuild == /\ IsEvent("rebuild")
  /\ LET r == Recs[l] IN
     IF ~usable THEN Obs({}) ELSE
     Obs(IF_((C09 \/ C06) /\ r.k # "ok", {<<"C09", "rebuild-rejected", r.k>>})
         \cup IF_(C06 /\ reach /\ r.k # "ok", {<<"C06", "reachable-position-not-reaccepted-by-builder", r.k>>})
         \* the builder image of a board is the board's state (ep file as the square behind the pawn)
         \cup IF_(C09 /\ (r.fb.b # cur.b \/ r.fb.stm # cur.stm \/ r.fb.cr # cur.cr \/ r.fb.hmc # cur.hmc \/ r.fb.fmn # cur.fmn
                         \/ r.fb.epsq # (IF cur.ep = -1 THEN -1 ELSE SqOf(cur.ep, IF cur.stm = 0 THEN 5 ELSE 2))),
                 {<<"C09", "builder-image-differs-from-board">>})
         \cup IF_((C09 \/ C03) /\ r.k = "ok" /\ (~r.eq \/ r.st # cur), {<<"C09", "rebuild-not-equal">>}))

\* boards built from the same position by other routes / clocks / without ep
TraceFresh == /\ IsEvent("fresh")
  /\ LET r == Recs[l]
         bad == {i \in 1..Len(r.hs) : LET x == r.hs[i].st IN
                   \/ x.b # cur.b \/ x.stm # cur.stm \/ x.cr # cur.cr
                   \/ x.hn # cur.hn
                   \/ (x.ep = cur.ep /\ x.h # cur.h)
                   \/ (x.ep = -1 /\ x.h # cur.hn)
                   \/ (x.ep # cur.ep /\ x.ep # -1)} IN
     IF ~usable THEN Obs({}) ELSE
     Obs(IF_(C10 /\ bad # {}, {<<"C10", "hash-depends-on-route-or-clocks", {<<r.hs[i].r, r.hs[i].st.h, cur.h, cur.hn>> : i \in bad}>>}))

TraceSame == /\ IsEvent("same")
  /\ LET r == Recs[l]  p == PosOf(r.a)  q == PosOf(r.o) IN
     IF ~C13 \/ ~OneKingEach(p) \/ ~OneKingEach(q) THEN Obs({}) ELSE
     LET exp == IF SamePos(p, q) THEN 1 ELSE 0 IN
     Obs(IF_(r.ab # exp \/ r.ba # exp, {<<"C13", "same-position", exp, r.ab, r.ba, p.ep, q.ep>>}))

\* two routes to (possibly) the same position: == must be exactly equality of position and clocks
TracePair == /\ IsEvent("pair")
  /\ LET r == Recs[l]  p == PosOf(r.a)  q == PosOf(r.o) IN
     \* C03: equal positions (with clocks) compare equal whatever the route; C07: boards are equal exactly when their records are
     Obs(IF_(C03 /\ p = q /\ ~r.eq, {<<"C03", "route-equality", r.eq>>})
         \cup IF_(C07 /\ r.eq # (p = q), {<<"C07", "boards-equal-iff-records-equal", r.eq, CanonFen(p, TRUE), CanonFen(q, TRUE)>>})
         \cup IF_((C03 \/ C10) /\ p = q /\ r.a # r.o, {<<"C03", "route-dependent-derived-state">>}))

TraceSan == /\ IsEvent("san")
  /\ LET r == Recs[l]  orth == Orthodox(pos)
         bad == {i \in 1..Len(r.mv) : LET x == r.mv[i]  m == x.m IN
                    \/ x.sk # "ok" \/ x.san # San(pos, lg, m)
                    \/ x.ps.k # "ok" \/ x.ps.m # m
                    \/ (orth /\ (x.uk # "ok" \/ x.uci # Uci(pos, m) \/ x.pu.k # "ok" \/ x.pu.m # m))} IN
     IF ~usable \/ ~C20 THEN Obs({}) ELSE
     Obs(IF_(bad # {}, {<<"C20", "san-uci-writer-or-roundtrip",
                          {<<r.mv[i].m, r.mv[i].san, San(pos, lg, r.mv[i].m), r.mv[i].ps, r.mv[i].uci, r.mv[i].pu>> : i \in bad}>>})
         \cup IF_({r.mv[i].m : i \in 1..Len(r.mv)} # lg, {<<"C20", "move-list">>}))

TraceSanRead == /\ IsEvent("sanread")
  /\ LET r == Recs[l]
         bad == {i \in 1..Len(r.q) : LET q == r.q[i] IN
                   IF q.k = "panic" THEN TRUE
                   ELSE IF q.k = "err" THEN FALSE
                   ELSE LET tk == SanTokens(q.cp) IN
                        ~(q.m \in lg /\ SanMatches(pos, tk, q.m) /\ \A o \in lg \ {q.m} : ~SanMatches(pos, tk, o))} IN
     IF ~usable \/ ~C20 THEN Obs({}) ELSE
     Obs(IF_(bad # {}, {<<"C20", "san-reader", {<<r.q[i].t, r.q[i].k, r.q[i].m>> : i \in bad}>>}))

TraceAcc == /\ IsEvent("acc")
  /\ LET r == Recs[l]  b == pos.b IN
     \* the bitboard accessors are the placement as most callers see it: in a C02 run a disagreement with the (rule-checked)
     \* projection is a wrong placement of the successor; elsewhere it is a note
     LET tg == IF C02 THEN "C02" ELSE "EXT" IN
     IF ~EXT /\ ~C02 THEN Obs({}) ELSE
     Obs(IF_(\E k \in 1..6 : SetOfSeq(r.pieces[k]) # {s \in Sq : KindOf(b[s]) = k}, {<<tg, "pieces-accessor">>})
         \cup IF_(\E c \in 0..1 : SetOfSeq(r.colors[c+1]) # Own(b, c), {<<tg, "colors-accessor">>})
         \cup IF_(\E c \in 0..1, k \in 1..6 : SetOfSeq(r.cp[6*c + k]) # PiecesOf(b, c, k), {<<tg, "colored-pieces-accessor">>})
         \cup IF_(SetOfSeq(r.occ) # Occ(b), {<<tg, "occupied-accessor">>})
         \cup IF_(usable /\ \E c \in 0..1 : r.kings[c+1] # KingSq(b, c), {<<tg, "king-accessor">>}))

\* a TLC-generated position (Mode C) that the library refused although the specification calls it sound
\* (no listed property obliges the library to accept unreachable positions: informational only)
TraceRefused == IsEvent("refused") /\ Obs(IF_(EXT, {<<"EXT", "generated-sound-position-refused", Recs[l].arg, Recs[l].err>>}))

\* the recorder gave up on a history because an unguarded library call panicked (corrupted board)
TraceAborted == IsEvent("aborted") /\ Obs({})

Init == /\ l = 1 /\ nviol = 0 /\ usable = FALSE /\ lg = {} /\ reach = FALSE
        /\ spos = [b |-> EmptyBoard, stm |-> 0, cr |-> <<-1,-1,-1,-1>>, ep |-> -1, hmc |-> 0, fmn |-> 1]
        /\ pos = [b |-> EmptyBoard, stm |-> 0, cr |-> <<-1,-1,-1,-1>>, ep |-> -1, hmc |-> 0, fmn |-> 1]
        /\ cur = [b |-> <<>>, stm |-> 0, cr |-> <<-1,-1,-1,-1>>, ep |-> -1, hmc |-> 0, fmn |-> 1,
                  chk |-> <<>>, pin |-> <<>>, h |-> "", hn |-> ""]
Next == \/ TraceReset \/ TracePlay \/ TraceNull \/ TraceSetHmc \/ TraceSetFmn
        \/ TraceGen \/ TraceGenFor \/ TraceAbort \/ TraceIsLegal \/ TraceTryPlay \/ TraceStatus
        \/ TraceText \/ TraceRebuild \/ TraceFresh \/ TraceSame \/ TracePair \/ TraceSan \/ TraceSanRead \/ TraceAcc \/ TraceAborted \/ TraceRefused
Spec == Init /\ [][Next]_vars

\* every line consumed (one state per line plus the initial one)
Accepted == IF TLCGet("stats").diameter - 1 = NRecs THEN PrintT(<<"ACCEPTED-LINES", NRecs>>)
            ELSE PrintT(<<"STUCK-AT-LINE", TLCGet("stats").diameter, NRecs>>) /\ FALSE
=============================================================================
