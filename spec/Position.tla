------------------------------ MODULE Position ------------------------------
(***************************************************************************)
(* The abstract position of cozy-chess and everything that is *defined*    *)
(* from it: attacks, checkers, pins (C03), structural soundness (C06),     *)
(* the hash as a set of features (C10), the 960 start arrays.              *)
(*                                                                         *)
(* position record                                                         *)
(*   b    : [0..63 -> 0..12]   0 empty, 1..6 white P N B R Q K, 7..12 black*)
(*   stm  : 0 white, 1 black                                               *)
(*   cr   : <<wShort, wLong, bShort, bLong>>  rook file 0..7 or -1         *)
(*   ep   : en-passant file 0..7 or -1                                     *)
(*   hmc  : half-move clock, fmn : full-move number                        *)
(***************************************************************************)
EXTENDS Geometry

PAWN == 1  KNIGHT == 2  BISHOP == 3  ROOK == 4  QUEEN == 5  KING == 6
ColorOf(p) == IF p = 0 THEN 2 ELSE IF p <= 6 THEN 0 ELSE 1
KindOf(p) == IF p = 0 THEN 0 ELSE ((p - 1) % 6) + 1
Mk(c, k) == c * 6 + k

EmptyBoard == [s \in Sq |-> 0]
Occ(b) == {s \in Sq : b[s] # 0}
Own(b, c) == {s \in Sq : ColorOf(b[s]) = c}
PiecesOf(b, c, k) == {s \in Sq : b[s] = Mk(c, k)}
Kings(b, c) == PiecesOf(b, c, KING)
KingSq(b, c) == CHOOSE s \in Sq : b[s] = Mk(c, KING)

(* ---- attacks on a placement ---- *)
\* first occupied square along a ray, or -1
RECURSIVE FirstHitR(_,_,_)
FirstHitR(b, ray, i) == IF i > Len(ray) THEN -1 ELSE IF b[ray[i]] # 0 THEN ray[i] ELSE FirstHitR(b, ray, i + 1)
FirstHit(b, ray) == FirstHitR(b, ray, 1)
\* squares reachable along a ray up to and including the first blocker
Reach(b, ray) == {ray[i] : i \in {i \in 1..Len(ray) : \A j \in 1..(i-1) : b[ray[j]] = 0}}
SliderAtt(b, s, ds) == UNION {Reach(b, Rays[s][d]) : d \in ds}

\* is square s attacked by colour c on placement b (a piece standing on s does not shield it)
Attacked(b, s, c) ==
  \/ \E t \in KnightAtt[s] : b[t] = Mk(c, KNIGHT)
  \/ \E t \in KingAtt[s] : b[t] = Mk(c, KING)
  \/ \E t \in PawnAtt[1-c][s] : b[t] = Mk(c, PAWN)
  \/ \E d \in RookDs : LET h == FirstHit(b, Rays[s][d])
                       IN h # -1 /\ (b[h] = Mk(c, ROOK) \/ b[h] = Mk(c, QUEEN))
  \/ \E d \in BishopDs : LET h == FirstHit(b, Rays[s][d])
                         IN h # -1 /\ (b[h] = Mk(c, BISHOP) \/ b[h] = Mk(c, QUEEN))
\* the attackers of s of colour c (used for checkers)
Attackers(b, s, c) ==
  {t \in KnightAtt[s] : b[t] = Mk(c, KNIGHT)} \cup {t \in KingAtt[s] : b[t] = Mk(c, KING)}
  \cup {t \in PawnAtt[1-c][s] : b[t] = Mk(c, PAWN)}
  \cup {h \in {FirstHit(b, Rays[s][d]) : d \in RookDs} : h # -1 /\ (b[h] = Mk(c, ROOK) \/ b[h] = Mk(c, QUEEN))}
  \cup {h \in {FirstHit(b, Rays[s][d]) : d \in BishopDs} : h # -1 /\ (b[h] = Mk(c, BISHOP) \/ b[h] = Mk(c, QUEEN))}

(* ---- checkers and pins by definition (C03) ---- *)
\* enemy (colour c) rooks/bishops/queens aligned with ks on a line that piece moves along
SlidersOn(b, c, ks) ==
  {s \in Sq : /\ ColorOf(b[s]) = c /\ s # ks
              /\ \/ KindOf(b[s]) \in {ROOK, QUEEN} /\ (FileOf(s) = FileOf(ks) \/ RankOf(s) = RankOf(ks))
                 \/ KindOf(b[s]) \in {BISHOP, QUEEN} /\ AbsV(FileOf(s) - FileOf(ks)) = AbsV(RankOf(s) - RankOf(ks))}
\* enemy pieces attacking the mover's king
Checkers(p) == LET b == p.b  c == p.stm  ks == KingSq(b, c) IN
  {s \in Sq : ColorOf(b[s]) = 1 - c /\
     \/ KindOf(b[s]) = KNIGHT /\ s \in KnightAtt[ks]
     \/ KindOf(b[s]) = PAWN /\ s \in PawnAtt[c][ks]
     \/ s \in SlidersOn(b, 1-c, ks) /\ \A e \in Between(s, ks) : b[e] = 0}
\* pieces of either colour standing alone between the mover's king and an aligned enemy slider
Pinned(p) == LET b == p.b  c == p.stm  ks == KingSq(b, c) IN
  UNION {LET occ == {e \in Between(s, ks) : b[e] # 0}
         IN IF Cardinality(occ) = 1 THEN occ ELSE {} : s \in SlidersOn(b, 1-c, ks)}
InCheck(p) == Attacked(p.b, KingSq(p.b, p.stm), 1 - p.stm)

(* ---- structural soundness: the C06 statement, clause by clause ---- *)
\* states: records with b, stm, cr, ep (file), hmc, fmn
OneKingEach(p) == \A c \in 0..1 : Cardinality(Kings(p.b, c)) = 1
KingsApart(p) == \A w \in Kings(p.b, 0), k \in Kings(p.b, 1) : k \notin KingAtt[w]
Material(p) == \A c \in 0..1 : /\ Cardinality(Own(p.b, c)) <= 16
                               /\ Cardinality(PiecesOf(p.b, c, PAWN)) <= 8
NoBackRankPawns(p) == \A s \in Sq : KindOf(p.b[s]) = PAWN => RankOf(s) \notin {0, 7}
OppNotInCheck(p) == \A k \in Kings(p.b, 1 - p.stm) : ~Attacked(p.b, k, p.stm)
RightsBacked(p) == \A c \in 0..1 : \A w \in 1..2 :
   LET f == p.cr[2*c + w]  br == BackRank(c) IN
   f # -1 => \E k \in Kings(p.b, c) : /\ RankOf(k) = br /\ p.b[SqOf(f, br)] = Mk(c, ROOK)
                                       /\ (IF w = 1 THEN FileOf(k) < f ELSE f < FileOf(k))
\* en-passant file backed by an enemy pawn on its fourth rank, origin and passed square empty
EpBacked(p) == p.ep # -1 =>
   LET them == 1 - p.stm  f == p.ep IN
   /\ p.b[SqOf(f, IF them = 0 THEN 3 ELSE 4)] = Mk(them, PAWN)
   /\ p.b[SqOf(f, IF them = 0 THEN 1 ELSE 6)] = 0
   /\ p.b[SqOf(f, IF them = 0 THEN 2 ELSE 5)] = 0
\* "... an enemy pawn that could just have advanced two squares": if that advance was the last move, a check on the
\* mover's king can only come from that pawn itself or be discovered through the square it left
EpCheckConsistent(p) == (p.ep # -1 /\ Cardinality(Kings(p.b, p.stm)) = 1) =>
   LET them == 1 - p.stm  ks == KingSq(p.b, p.stm)
       pawn == SqOf(p.ep, IF them = 0 THEN 3 ELSE 4)  origin == SqOf(p.ep, IF them = 0 THEN 1 ELSE 6)
   IN \A ch \in Attackers(p.b, ks, them) : ch = pawn \/ origin \in Between(ch, ks)
ClocksOk(p) == p.hmc >= 0 /\ p.hmc <= 100 /\ p.fmn >= 1 /\ p.fmn <= 65535
Valid(p) == /\ OneKingEach(p) /\ KingsApart(p) /\ Material(p) /\ NoBackRankPawns(p)
            /\ OppNotInCheck(p) /\ RightsBacked(p) /\ EpBacked(p) /\ EpCheckConsistent(p) /\ ClocksOk(p)
\* names of the clauses a state violates (for reports)
Broken(p) == (IF OneKingEach(p) THEN {} ELSE {"kings"})
        \cup (IF ~OneKingEach(p) \/ KingsApart(p) THEN {} ELSE {"adjacent-kings"})
        \cup (IF Material(p) THEN {} ELSE {"material"})
        \cup (IF NoBackRankPawns(p) THEN {} ELSE {"backrank-pawn"})
        \cup (IF ~OneKingEach(p) \/ OppNotInCheck(p) THEN {} ELSE {"opponent-in-check"})
        \cup (IF RightsBacked(p) THEN {} ELSE {"rights"})
        \cup (IF EpBacked(p) THEN {} ELSE {"ep"})
        \cup (IF EpCheckConsistent(p) THEN {} ELSE {"ep-vs-check"})
        \cup (IF ClocksOk(p) THEN {} ELSE {"clocks"})

(* ---- hash model (C10): the hash is the XOR of the keys of these features ---- *)
Features(p) == {<<"pc", p.b[s], s>> : s \in Occ(p.b)}
               \cup (IF p.stm = 1 THEN {<<"stm">>} ELSE {})
               \cup {<<"cr", (i-1) \div 2, p.cr[i]>> : i \in {i \in 1..4 : p.cr[i] # -1}}
               \cup (IF p.ep # -1 THEN {<<"ep", p.ep>>} ELSE {})
\* the part of a position the hash may depend on
HashKey(p) == <<p.b, p.stm, p.cr, p.ep>>

(* ---- Chess960 start arrays (Scharnagl numbering) ---- *)
\* back-rank kinds by file (1-based tuple) for Scharnagl number n in 0..959
Scharnagl(n) ==
  LET lb == <<1, 3, 5, 7>>[(n % 4) + 1]              \* light-square bishop file b d f h
      n2 == n \div 4
      db == <<0, 2, 4, 6>>[(n2 % 4) + 1]             \* dark-square bishop file a c e g
      n3 == n2 \div 4
      q == n3 % 6
      kn == n3 \div 6
      free1 == SeqOfSet((0..7) \ {lb, db})
      qf == free1[q + 1]
      free2 == SeqOfSet((0..7) \ {lb, db, qf})
      kp == << <<0,1>>, <<0,2>>, <<0,3>>, <<0,4>>, <<1,2>>, <<1,3>>, <<1,4>>, <<2,3>>, <<2,4>>, <<3,4>> >>[kn + 1]
      n1f == free2[kp[1] + 1]  n2f == free2[kp[2] + 1]
      free3 == SeqOfSet((0..7) \ {lb, db, qf, n1f, n2f})
  IN [f \in 0..7 |-> IF f = lb \/ f = db THEN BISHOP ELSE IF f = qf THEN QUEEN
                     ELSE IF f = n1f \/ f = n2f THEN KNIGHT
                     ELSE IF f = free3[2] THEN KING ELSE ROOK]
RookFiles(arr) == SeqOfSet({f \in 0..7 : arr[f] = ROOK})
Start(w, k) ==
  LET aw == Scharnagl(w)  ab == Scharnagl(k)  rw == RookFiles(aw)  rb == RookFiles(ab) IN
  [b |-> [s \in Sq |-> CASE RankOf(s) = 0 -> Mk(0, aw[FileOf(s)])
                         [] RankOf(s) = 1 -> Mk(0, PAWN)
                         [] RankOf(s) = 6 -> Mk(1, PAWN)
                         [] RankOf(s) = 7 -> Mk(1, ab[FileOf(s)])
                         [] OTHER -> 0],
   stm |-> 0, cr |-> <<rw[2], rw[1], rb[2], rb[1]>>, ep |-> -1, hmc |-> 0, fmn |-> 1]
=============================================================================
