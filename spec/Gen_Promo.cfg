SPECIFICATION Spec
INVARIANT Emit
CHECK_DEADLOCK FALSE
