SPECIFICATION Spec
INVARIANT Increasing
INVARIANT AllSub
INVARIANT Complete
INVARIANT OrderAgrees
CHECK_DEADLOCK FALSE
INVARIANT FlipFilesOK
