------------------------------ MODULE Gen_Promo ------------------------------
(***************************************************************************)
(* Mode C (spec -> impl): TLC ENUMERATES promotion situations: a pawn of   *)
(* either colour on its seventh rank on any file; on each of its two       *)
(* capture squares nothing or an enemy knight, bishop, rook or queen; the  *)
(* push square free or blocked; the enemy king on any square of its back   *)
(* rank (so that promotions check along the rank, through the vacated      *)
(* origin, or capture next to the king) or off it; the enemy rooks on the  *)
(* capture squares optionally carrying castling rights (a promotion that   *)
(* captures them must clear the right and its hash key, for whatever       *)
(* Chess960 file the rook stands on); the mover's king in a corner,        *)
(* directly or diagonally behind the pawn (diagonal and file pins by the   *)
(* pieces on the capture squares) or beside it.  The recorder plays EVERY  *)
(* legal move; generation, is_legal, the successor with its rights,        *)
(* checkers, pins and hash are judged by Trace_Board.                      *)
(* IOEnv.GENCFG: {"mod": m, "rem": r}.                                     *)
(***************************************************************************)
EXTENDS Text, Json, IOUtils
Cfg == JsonDeserialize(IOEnv.GENCFG)
Keep(h) == h % Cfg.mod = Cfg.rem
VARIABLES col, pf, lt, rt, fw, okc, ekc, crr
vars == <<col, pf, lt, rt, fw, okc, ekc, crr>>
Init == /\ col \in 0..1 /\ pf \in 0..7
        /\ lt \in {0, KNIGHT, BISHOP, ROOK, QUEEN} /\ rt \in {0, KNIGHT, BISHOP, ROOK, QUEEN}
        /\ (pf = 0 => lt = 0) /\ (pf = 7 => rt = 0)
        /\ fw \in 0..1                       \* 1: an enemy knight on the push square
        /\ okc \in 1..7                      \* where the mover's king stands (OwnKing)
        /\ ekc \in 0..9                      \* enemy king: file 0..7 of its back rank, 8 / 9: off the rank
        /\ crr \in 0..1                      \* 1: rooks on the capture squares carry the enemy's castling rights
        /\ Keep(col * 7919 + pf * 104729 + lt * 15485 + rt * 32452 + fw * 49979 + okc * 86028 + ekc * 12343 + crr * 27644)
Next == UNCHANGED vars
Spec == Init /\ [][Next]_vars
R(k) == RankRelativeTo(k, col)                \* rank k as the mover counts
PawnSq == SqOf(pf, R(6))
PushSq == SqOf(pf, R(7))
LSq == IF pf > 0 THEN SqOf(pf - 1, R(7)) ELSE -1
RSq == IF pf < 7 THEN SqOf(pf + 1, R(7)) ELSE -1
OwnKing == CASE okc = 1 -> SqOf(0, R(0))
             [] okc = 2 -> SqOf(7, R(0))
             [] okc = 3 -> SqOf(pf, R(5))
             [] okc = 4 -> IF pf > 0 THEN SqOf(pf - 1, R(5)) ELSE -1
             [] okc = 5 -> IF pf < 7 THEN SqOf(pf + 1, R(5)) ELSE -1
             [] okc = 6 -> IF pf > 1 THEN SqOf(pf - 2, R(6)) ELSE -1
             [] okc = 7 -> IF pf < 6 THEN SqOf(pf + 2, R(6)) ELSE -1
EnemyKing == CASE ekc <= 7 -> SqOf(ekc, R(7))
               [] ekc = 8 -> SqOf(0, R(4))
               [] ekc = 9 -> SqOf(7, R(3))
EkOnBack == ekc <= 7
\* the enemy's rights: <<short, long>> of colour 1 - col, held by the rooks on the capture squares
EShort == IF crr = 1 /\ EkOnBack /\ rt = ROOK /\ pf + 1 > ekc THEN pf + 1
          ELSE IF crr = 1 /\ EkOnBack /\ lt = ROOK /\ pf - 1 > ekc THEN pf - 1 ELSE -1
ELong == IF crr = 1 /\ EkOnBack /\ lt = ROOK /\ pf - 1 < ekc THEN pf - 1
         ELSE IF crr = 1 /\ EkOnBack /\ rt = ROOK /\ pf + 1 < ekc THEN pf + 1 ELSE -1
Rights == IF col = 0 THEN <<-1, -1, EShort, ELong>> ELSE <<EShort, ELong, -1, -1>>
Distinct == LET used == <<PawnSq, OwnKing, EnemyKing>> \o (IF lt # 0 THEN <<LSq>> ELSE <<>>) \o (IF rt # 0 THEN <<RSq>> ELSE <<>>)
                         \o (IF fw = 1 THEN <<PushSq>> ELSE <<>>)
            IN /\ \A n \in 1..Len(used) : used[n] # -1
               /\ Cardinality(SetOfSeq(used)) = Len(used)
PosWith(pw, ps, ls, rs, ok, ek) ==
          [b |-> [x \in Sq |-> IF x = pw THEN Mk(col, PAWN)
                               ELSE IF x = ok THEN Mk(col, KING)
                               ELSE IF x = ek THEN Mk(1 - col, KING)
                               ELSE IF x = ls /\ lt # 0 THEN Mk(1 - col, lt)
                               ELSE IF x = rs /\ rt # 0 THEN Mk(1 - col, rt)
                               ELSE IF x = ps /\ fw = 1 THEN Mk(1 - col, KNIGHT) ELSE 0],
           stm |-> col, cr |-> Rights, ep |-> -1, hmc |-> 7, fmn |-> 30]
ThePos == PosWith(PawnSq, PushSq, LSq, RSq, OwnKing, EnemyKing)
Emit == IF Distinct /\ (crr = 1 => (EShort # -1 \/ ELong # -1)) /\ OneKingEach(ThePos) /\ Valid(ThePos)
        THEN PrintT(<<"GEN", CanonFen(ThePos, TRUE)>>) ELSE TRUE
=============================================================================
