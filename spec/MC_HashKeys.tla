---------------------------- MODULE MC_HashKeys ----------------------------
(***************************************************************************)
(* C11 decision at constant level.  Input: the "table" record of the       *)
(* extraction trace, i.e. the keys that Trace_Hash.tla validated (each     *)
(* from pairs of accepted boards differing in one feature, and checked to  *)
(* be equal to this table).  TLC decides that no XOR of one to four        *)
(* distinct realisable feature keys is zero:                               *)
(*   - no key is zero, all keys distinct            (1 and 2 features)     *)
(*   - no pair XOR equals a key                     (3 features)           *)
(*   - all pair XORs are distinct                   (4 features)           *)
(*   - a king move (two king features of one colour) never cancels against *)
(*     nothing, one or two other features, nor against a king move of the  *)
(*     other colour.                                                       *)
(* 64-bit keys are four 16-bit limbs; XOR is the Bitwise module's.         *)
(***************************************************************************)
EXTENDS Integers, Sequences, FiniteSets, TLC, Bitwise, Json, IOUtils
Recs == ndJsonDeserialize(IOEnv.TRACE)
Tab == Recs[CHOOSE i \in 1..Len(Recs) : Recs[i].ev = "table"]
Zero == <<0, 0, 0, 0>>
XorL(a, b) == <<a[1] ^^ b[1], a[2] ^^ b[2], a[3] ^^ b[3], a[4] ^^ b[4]>>
K == Tab.nonking
N == Len(K)
U == {K[i] : i \in 1..N}
\* (one set comprehension over index pairs: TLC builds it in n log n; a UNION of n sets, or peeling a set element by
\*  element, is far slower)
P == {XorL(K[q[1]], K[q[2]]) : q \in {q \in (1..N) \X (1..N) : q[1] < q[2]}}
Kr0 == <<Zero>> \o Tab.kr0       \* incl. the reference square, whose relative key is 0
Kr1 == <<Zero>> \o Tab.kr1
KP0 == {XorL(Kr0[q[1]], Kr0[q[2]]) : q \in {q \in (1..Len(Kr0)) \X (1..Len(Kr0)) : q[1] < q[2]}}
KP1 == {XorL(Kr1[q[1]], Kr1[q[2]]) : q \in {q \in (1..Len(Kr1)) \X (1..Len(Kr1)) : q[1] < q[2]}}
Small == {Zero} \cup U

VARIABLE x
Init == x = 0
Next == x' = x
Spec == Init /\ [][Next]_x
TableComplete == N = 633 /\ Len(Kr0) = 64 /\ Len(Kr1) = 64
NoZeroKey == Zero \notin U
KeysDistinct == Cardinality(U) = N /\ Cardinality({Kr0[i] : i \in 1..64}) = 64 /\ Cardinality({Kr1[i] : i \in 1..64}) = 64
\* (disjointness is stated with cardinalities: TLC normalises a union once, while each membership test in a
\*  comprehension-defined set would rebuild it)
NoThreeWayCancel == Cardinality(P \cup Small) = Cardinality(P) + Cardinality(Small)
NoFourWayCancel == Cardinality(P) = (N * (N - 1)) \div 2
KingMoveSeparates == Cardinality(KP0 \cup KP1 \cup Small \cup P) = Cardinality(KP0 \cup KP1) + Cardinality(Small \cup P)
KingMovesOfBothSidesSeparate == Cardinality(KP0 \cup KP1) = Cardinality(KP0) + Cardinality(KP1)
Report == PrintT(<<"SAMPLE", "C11-decision", [nonking_keys |-> N, distinct_pair_xors |-> Cardinality(P),
                    king_pair_xors |-> Cardinality(KP0) + Cardinality(KP1), sample_key |-> K[1]]>>)
=============================================================================
