------------------------------- MODULE Gen_Ep -------------------------------
(***************************************************************************)
(* Mode C (spec -> impl): TLC ENUMERATES en-passant situations and prints  *)
(* each as a canonical Shredder-FEN record for execution on the library.   *)
(* A pawn has just advanced two squares beside one (or two) pawns of the   *)
(* side to move; the mover's king stands on any square; one enemy rook,    *)
(* bishop, queen or knight (or none) stands on any square.  This covers    *)
(* the capture that exposes the king along the rank (both pawns leave it), *)
(* diagonal and file pins of the capturing pawn, the check given by the    *)
(* advanced pawn itself (capturing it is the evasion), checks discovered   *)
(* through the advanced pawn's origin square, and double checks.           *)
(* Only positions the staged validator model accepts are emitted.          *)
(* IOEnv.GENCFG: {"mod": m, "rem": r, "kmod": k, "krem": j}: king squares  *)
(* with s % k = j, cases with index hash % m = r.                          *)
(***************************************************************************)
EXTENDS Impl, Text, Json, IOUtils
Cfg == JsonDeserialize(IOEnv.GENCFG)
Keep(h) == h % Cfg.mod = Cfg.rem

VARIABLES pf, side, two, wk, kind, x, col
vars == <<pf, side, two, wk, kind, x, col>>
Init == /\ pf \in 0..7 /\ side \in {-1, 1} /\ pf + side \in 0..7
        /\ two \in 0..1 /\ (two = 1 => pf + 2 * side \in 0..7)
        /\ wk \in {s \in Sq : s % Cfg.kmod = Cfg.krem}
        /\ kind \in {0, KNIGHT, BISHOP, ROOK, QUEEN}
        /\ x \in (IF kind = 0 THEN {0} ELSE Sq)
        /\ col \in 0..1
        /\ Keep(pf + 3 * side + 5 * two + 7 * wk + 11 * kind + 13 * x + col)
Next == UNCHANGED vars
Spec == Init /\ [][Next]_vars

\* White to move: white pawn(s) on the fifth rank, the black pawn on pf + side just came from the seventh
BaseB == LET ef == pf + side
             occupied == {SqOf(pf, 4), SqOf(ef, 4)} \cup (IF two = 1 THEN {SqOf(pf + 2 * side, 4)} ELSE {})
             bk == IF wk \in KingAtt[63] \cup {63} \/ 63 \in occupied \/ x = 63 THEN (IF wk \in KingAtt[56] \cup {56} \/ x = 56 THEN 59 ELSE 56) ELSE 63
         IN [s \in Sq |-> IF s = SqOf(pf, 4) THEN Mk(0, PAWN)
                          ELSE IF s = SqOf(ef, 4) THEN Mk(1, PAWN)
                          ELSE IF two = 1 /\ s = SqOf(pf + 2 * side, 4) THEN Mk(0, PAWN)
                          ELSE IF s = wk THEN Mk(0, KING)
                          ELSE IF kind # 0 /\ s = x THEN Mk(1, kind)
                          ELSE IF s = bk THEN Mk(1, KING) ELSE 0]
Distinct == LET ef == pf + side
                pawns == {SqOf(pf, 4), SqOf(ef, 4)} \cup (IF two = 1 THEN {SqOf(pf + 2 * side, 4)} ELSE {})
            IN wk \notin pawns /\ (kind = 0 \/ (x \notin pawns /\ x # wk /\ x \notin {SqOf(ef, 5), SqOf(ef, 6)}))
               /\ wk \notin {SqOf(ef, 5), SqOf(ef, 6)}
PosW == [b |-> BaseB, stm |-> 0, cr |-> <<-1,-1,-1,-1>>, ep |-> pf + side, hmc |-> 0, fmn |-> 1]
SwapColor(p) == IF p = 0 THEN 0 ELSE IF p <= 6 THEN p + 6 ELSE p - 6
Mirror(p) == [b |-> [s \in Sq |-> SwapColor(p.b[FlipRank(s)])], stm |-> 1 - p.stm,
              cr |-> <<p.cr[3], p.cr[4], p.cr[1], p.cr[2]>>, ep |-> p.ep, hmc |-> p.hmc, fmn |-> p.fmn]
ThePos == IF col = 0 THEN PosW ELSE Mirror(PosW)
\* Cfg.unsound = 1: also the positions whose ep file contradicts the check on the mover (records a reader must refuse
\* naming the en-passant field); otherwise only positions the staged validator model accepts
Emit == IF Distinct /\ OneKingEach(ThePos)
           /\ (IF "unsound" \in DOMAIN Cfg /\ Cfg.unsound = 1
               THEN KingsApart(ThePos) /\ OppNotInCheck(ThePos) /\ EpBacked(ThePos)
               ELSE Valid(ThePos) /\ ImplStage(ThePos) = "ok")
        THEN PrintT(<<"GEN", CanonFen(ThePos, TRUE)>>) ELSE TRUE
=============================================================================
