------------------------------- MODULE ImplSan -------------------------------
(***************************************************************************)
(* L2 for the SAN helpers (util/mod.rs): display_san_move and              *)
(* parse_san_move transcribed on the implementation-shaped board, working  *)
(* on components / tokens (the text layer is Notation.tla).  Chess.tla     *)
(* checks  DisplaySanImpl = SanParts  and that the reader inverts it.      *)
(***************************************************************************)
EXTENDS Impl, Notation

DisplaySanImpl(bd, m) ==
  LET zb == bd.zb  c == zb.stm  s == m[1]  t == m[2]
      after == PlayUnchecked(bd, m)
      check == after.chk # {}
      checkmate == check /\ GenFor(after, Sq) = <<>>
      piece == ZPieceOn(zb, s)
      captures == Cardinality(ZOcc(zb)) > Cardinality(ZOcc(after.zb))
      br == BackRank(c)
      castleShort == IF zb.cr[2*c+1] = -1 THEN -1 ELSE SqOf(zb.cr[2*c+1], br)
      castleLong == IF zb.cr[2*c+2] = -1 THEN -1 ELSE SqOf(zb.cr[2*c+2], br)
      suffix == IF checkmate THEN "#" ELSE IF check THEN "+" ELSE ""
  IN \* (the code reads  piece == King && to == short || to == long ; kept as written)
     IF (piece = KING /\ t = castleShort) \/ t = castleLong
     THEN [castle |-> IF t = castleLong THEN 2 ELSE 1, piece |-> 0, ffile |-> -1, frank |-> -1, cap |-> FALSE, to |-> t, promo |-> 0, suffix |-> suffix]
     ELSE LET bs == GenFor(bd, ZColored(zb, c, piece))
              others == {i \in 1..Len(bs) : bs[i][2] # s /\ t \in bs[i][3]}
              ambiguous == others # {} \/ (piece = PAWN /\ captures)
              fileDis == \A i \in others : FileOf(bs[i][2]) # FileOf(s)
              rankDis == \A i \in others : RankOf(bs[i][2]) # RankOf(s)
              ff == IF ~ambiguous THEN -1 ELSE IF fileDis THEN FileOf(s) ELSE IF ~rankDis THEN FileOf(s) ELSE -1
              fr == IF ~ambiguous THEN -1 ELSE IF fileDis THEN -1 ELSE RankOf(s)
          IN [castle |-> 0, piece |-> IF piece = PAWN THEN 0 ELSE piece, ffile |-> ff, frank |-> fr, cap |-> captures,
              to |-> t, promo |-> m[3], suffix |-> suffix]

\* parse_san_move on tokens; result a move or <<-1,-1,-1>> for an error
NoMove == <<-1, -1, -1>>
ParseSanImpl(bd, tk) ==
  LET zb == bd.zb  c == zb.stm IN
  IF ~tk.ok THEN NoMove ELSE
  LET rookFile == IF tk.castle = 2 THEN zb.cr[2*c+2] ELSE IF tk.castle = 1 THEN zb.cr[2*c+1] ELSE -2
      dst == IF tk.castle # 0 THEN (IF rookFile = -1 THEN -1 ELSE SqOf(rookFile, RankOf(ZKing(zb, c)))) ELSE tk.dest
      piece == IF tk.castle # 0 THEN KING ELSE IF tk.piece = 0 THEN PAWN ELSE tk.piece
      promo == IF tk.castle # 0 THEN 0 ELSE tk.promo
      mask == {q \in ZColored(zb, c, piece) : (tk.castle # 0 \/ tk.rank = -1 \/ RankOf(q) = tk.rank) /\ (tk.castle # 0 \/ tk.file = -1 \/ FileOf(q) = tk.file)}
  IN IF dst = -1 THEN NoMove ELSE
     LET bs == GenFor(bd, mask)
         cands == UNION {{mv \in BatchMovesI(<<bs[i][1], bs[i][2], bs[i][3] \cap {dst}>>) : mv[3] = promo} : i \in 1..Len(bs)}
     IN IF Cardinality(cands) = 1 THEN CHOOSE mv \in cands : TRUE ELSE NoMove
=============================================================================
