------------------------------ MODULE MC_Starts ------------------------------
(***************************************************************************)
(* Mode A for the start-position half of C06: the specification's          *)
(* Scharnagl arrays (Position.tla) are checked, for all 960 numbers,       *)
(*  - to be legal Chess960 arrays: bishops on opposite colours, the king   *)
(*    between the rooks, one queen, two knights;                           *)
(*  - to be pairwise different (so they are ALL legal arrays: there are    *)
(*    exactly 960);                                                        *)
(*  - to equal, number by number, the published table shipped in           *)
(*    roots/chess960_start_positions.sfens (read as code points through    *)
(*    the record denotation of TextParse.tla);                             *)
(* and every double start position Start(w, b) built from them is a sound  *)
(* position that the staged validator model accepts (sampled pairs).       *)
(* IOEnv.MCCFG: {"table": [[code points of record n] ...], "pairs": k}     *)
(***************************************************************************)
EXTENDS ImplParse, Json, IOUtils
Cfg == JsonDeserialize(IOEnv.MCCFG)
VARIABLES g, n
\* (two levels so that TLC's workers share the 960 numbers)
Init == g \in 0..15 /\ n = -1
Next == n = -1 /\ UNCHANGED g /\ n' \in {x \in 0..959 : x % 16 = g}
Spec == Init /\ [][Next]_<<g, n>>
Arr == Scharnagl(IF n = -1 THEN 0 ELSE n)
FilesOf(k) == {f \in 0..7 : Arr[f] = k}
LegalArray == n = -1 \/
              /\ Cardinality(FilesOf(BISHOP)) = 2 /\ Cardinality({f % 2 : f \in FilesOf(BISHOP)}) = 2
              /\ Cardinality(FilesOf(ROOK)) = 2 /\ Cardinality(FilesOf(KING)) = 1
              /\ Cardinality(FilesOf(QUEEN)) = 1 /\ Cardinality(FilesOf(KNIGHT)) = 2
              /\ \A k \in FilesOf(KING) : MinOf(FilesOf(ROOK)) < k /\ k < MaxOf(FilesOf(ROOK))
\* distinctness: no smaller number has the same array
Distinct == n = -1 \/ \A m \in 0..(n - 1) : Scharnagl(m) # Arr
MatchesTable == n = -1 \/ LET d == Denote(Cfg.table[n + 1], 1) IN d.ok /\ AsPos(d.bs) = Start(n, n)
PairsSound == n = -1 \/ \A k \in {(n * 7 + j * 131) % 960 : j \in 1..Cfg.pairs} :
                 LET p == Start(n, k) IN Valid(p) /\ ImplStage(p) = "ok" /\ Checkers(p) = {} /\ Pinned(p) = {}
Sample == n # 518 \/ PrintT(<<"SAMPLE", "Scharnagl 518", CanonFen(Start(518, 518), TRUE)>>)
=============================================================================
