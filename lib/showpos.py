#!/usr/bin/env python3
"""Print the positions of an ndjson history as diagrams (debugging aid)."""
import json, sys
P = ".PNBRQKpnbrqk"
def show(st):
    b = st["b"]
    rows = []
    for r in range(7, -1, -1):
        rows.append(" ".join(P[b[r*8+f]] for f in range(8)))
    print("\n".join(rows))
    print("stm", st["stm"], "cr", st["cr"], "ep", st["ep"], "hmc", st["hmc"], "fmn", st["fmn"], "chk", st["chk"], "pin", st["pin"])
for line in open(sys.argv[1]):
    e = json.loads(line)
    head = {k: v for k, v in e.items() if k not in ("st", "a", "o")}
    print(json.dumps(head)[:400])
    for k in ("st", "a", "o"):
        if k in e and isinstance(e[k], dict) and "b" in e[k]:
            show(e[k])
