"""Core of the check driver: builds, recorder runs, TLC runs, mismatch parsing, evidence."""
import json, os, re, shutil, subprocess, sys, time, glob

VERIF = os.path.dirname(os.path.dirname(os.path.abspath(__file__)))
SPEC = os.path.join(VERIF, "spec")
HARNESS = os.path.join(VERIF, "harness")
WORK = os.path.join(VERIF, "work")
REPLAYS = os.path.join(VERIF, "replays")
EVIDENCE = os.path.join(VERIF, "evidence")
KNOWN = os.path.join(VERIF, "known_findings.txt")
TLA_CP = "/opt/veriftools/tla/tla2tools.jar:/opt/veriftools/tla/CommunityModules-deps.jar"
NCPU = min(16, os.cpu_count() or 4)


class ToolError(Exception):
    pass


def log(msg):
    print(msg, flush=True)


# --------------------------------------------------------------------------- builds
VARIANTS = {
    # name: (cargo args, env additions, target dir, profile dir)
    "release": (["build", "--release"], {}, "target", "release"),
    "pext": (["build", "--release", "--features", "pext"], {"RUSTFLAGS": "-C target-feature=+bmi2"}, "target-pext", "release"),
    "dev": (["build"], {}, "target", "debug"),
}
_built = {}


def build_harness(variant="release"):
    """Build the recorder from /repo's current working tree (path dependency)."""
    if variant in _built:
        return _built[variant]
    args, envx, tdir, prof = VARIANTS[variant]
    env = dict(os.environ)
    env.update(envx)
    env["CARGO_NET_OFFLINE"] = "true"
    env["CARGO_TARGET_DIR"] = os.path.join(HARNESS, tdir)
    t0 = time.time()
    p = subprocess.run(["cargo"] + args + ["--offline", "--quiet"], cwd=HARNESS, env=env, stdout=subprocess.PIPE, stderr=subprocess.STDOUT, text=True)
    if p.returncode != 0:
        raise ToolError("cargo build (%s) failed:\n%s" % (variant, p.stdout[-4000:]))
    exe = os.path.join(HARNESS, tdir, prof, "vharness")
    if not os.path.exists(exe):
        raise ToolError("harness binary missing: " + exe)
    log("[build] harness variant %s ready in %.1fs" % (variant, time.time() - t0))
    _built[variant] = exe
    return exe


def workdir(pid, name):
    d = os.path.join(WORK, pid, name)
    shutil.rmtree(d, ignore_errors=True)
    os.makedirs(d, exist_ok=True)
    return d


def run_recorder(variant, driver, args, timeout=3600):
    exe = build_harness(variant)
    cmd = [exe, driver] + [str(a) for a in args]
    env = dict(os.environ)
    env["VERIF_ROOT"] = VERIF
    t0 = time.time()
    try:
        p = subprocess.run(cmd, env=env, stdout=subprocess.PIPE, stderr=subprocess.PIPE, text=True, timeout=timeout)
    except subprocess.TimeoutExpired:
        raise ToolError("recorder timed out: " + " ".join(cmd))
    if p.returncode != 0:
        raise ToolError("recorder failed (%d): %s\n%s" % (p.returncode, " ".join(cmd), p.stderr[-2000:]))
    line = p.stdout.strip().splitlines()[-1] if p.stdout.strip() else "{}"
    try:
        stats = json.loads(line)
    except Exception:
        stats = {}
    stats["wall_s"] = round(time.time() - t0, 2)
    stats["cmd"] = " ".join(cmd[1:])
    return stats


# --------------------------------------------------------------------------- TLC
def tlc_cmd(spec, cfg, metadir, workers=1, xmx="2g", extra=None, simulate=None):
    cmd = ["java", "-XX:+UseSerialGC" if workers == 1 else "-XX:+UseParallelGC", "-Xss1g", "-Xmx" + xmx,
           "-cp", TLA_CP, "tlc2.TLC", "-workers", str(workers), "-metadir", metadir, "-cleanup", "-noGenerateSpecTE"]
    if simulate:
        cmd += ["-simulate", simulate]
    if extra:
        cmd += extra
    cmd += ["-config", cfg, spec]
    return cmd


MISMATCH_RE = re.compile(r'<<\s*"MISMATCH",\s*(\d+),')
ITEM_RE = re.compile(r'<<\s*"(C\d\d|EXT)",\s*"([A-Za-z0-9_-]+)"')


def split_blocks(text, head):
    """Split TLC output into top-level printed values starting with <<"head" ..."""
    blocks = []
    lines = text.splitlines()
    i = 0
    pat = re.compile(r'^<<\s*"%s"' % head)
    while i < len(lines):
        if pat.match(lines[i]):
            buf = [lines[i]]
            depth = lines[i].count("<<") - lines[i].count(">>")
            i += 1
            while depth > 0 and i < len(lines):
                buf.append(lines[i])
                depth += lines[i].count("<<") - lines[i].count(">>")
                i += 1
            blocks.append("\n".join(buf))
        else:
            i += 1
    return blocks


def item_spans(block):
    """(property, check, text) for each reported tuple of a MISMATCH block."""
    out = []
    ms = list(ITEM_RE.finditer(block))
    for k, m in enumerate(ms):
        end = ms[k + 1].start() if k + 1 < len(ms) else len(block)
        out.append((m.group(1), m.group(2), " ".join(block[m.start():end].split())))
    return out


class TlcResult:
    def __init__(self):
        self.mismatches = []   # (shard file, line, property, check, text)
        self.states = 0
        self.distinct = 0
        self.lines = 0
        self.wall = 0.0
        self.outputs = []


def run_tlc_shards(spec_name, shard_files, checks, wd, timeout=1500, extra_env=None):
    """Validate each shard with its own JVM (serial GC, one worker), NCPU at a time."""
    spec = os.path.join(SPEC, spec_name + ".tla")
    cfg = os.path.join(SPEC, spec_name + ".cfg")
    res = TlcResult()
    t0 = time.time()
    pending = [f for f in shard_files if os.path.getsize(f) > 0]
    running = []
    outputs = {}

    def launch(f):
        k = len(outputs) + len(running)
        meta = os.path.join(wd, "meta-%d-%s" % (k, os.path.basename(f)))
        env = dict(os.environ)
        for c in ["C%02d" % i for i in range(1, 21)] + ["EXT"]:
            env.pop(c, None)
        for c in checks:
            env[c] = "1"
        env["TRACE"] = f
        if extra_env:
            env.update(extra_env)
        outp = f + ".tlc.out"
        fh = open(outp, "w")
        p = subprocess.Popen(tlc_cmd(spec, cfg, meta, xmx="3g"), cwd=wd, env=env, stdout=fh, stderr=subprocess.STDOUT)
        return (p, f, outp, fh, time.time())

    while pending or running:
        while pending and len(running) < NCPU:
            running.append(launch(pending.pop(0)))
        time.sleep(0.2)
        still = []
        for (p, f, outp, fh, ts) in running:
            rc = p.poll()
            if rc is None:
                if time.time() - ts > timeout:
                    p.kill()
                    for (q, *_rest) in running:
                        try:
                            q.kill()
                        except Exception:
                            pass
                    raise ToolError("TLC timed out on %s after %ds" % (f, timeout))
                still.append((p, f, outp, fh, ts))
            else:
                fh.close()
                outputs[f] = (rc, outp)
        running = still
    for f, (rc, outp) in outputs.items():
        text = open(outp, errors="replace").read()
        nlines = sum(1 for _ in open(f))
        m = re.search(r'<<"ACCEPTED-LINES", (\d+)>>', text)
        if not m or int(m.group(1)) != nlines:
            stuck = re.search(r'<<"STUCK-AT-LINE", (\d+), (\d+)>>', text)
            tail = text[-3000:]
            raise ToolError("TLC did not consume %s (rc=%s, %s):\n%s" % (f, rc, stuck.group(0) if stuck else "no verdict", tail))
        res.lines += nlines
        g = re.search(r'(\d+) states generated, (\d+) distinct states found', text)
        if g:
            res.states += int(g.group(1))
            res.distinct += int(g.group(2))
        for blk in split_blocks(text, "MISMATCH"):
            mm = MISMATCH_RE.search(blk)
            if not mm:
                continue
            line = int(mm.group(1))
            for (prop, chk, txt) in item_spans(blk):
                res.mismatches.append((f, line, prop, chk, txt))
        res.outputs.append(outp)
    res.wall = time.time() - t0
    return res


def run_tlc_model(spec_name, cfg_name, wd, workers=8, timeout=1800, xmx="6g", simulate=None, env_extra=None, extra=None):
    """Mode A: bounded model checking of the specification itself."""
    spec = os.path.join(SPEC, spec_name + ".tla")
    if os.path.isabs(cfg_name):
        cfg = cfg_name
        cfg_name = os.path.basename(cfg_name)[:-4]
    else:
        cfg = os.path.join(SPEC, cfg_name + ".cfg")
    meta = os.path.join(wd, "meta-" + cfg_name)
    outp = os.path.join(wd, cfg_name + ".tlc.out")
    env = dict(os.environ)
    if env_extra:
        env.update(env_extra)
    t0 = time.time()
    with open(outp, "w") as fh:
        try:
            p = subprocess.run(tlc_cmd(spec, cfg, meta, workers=workers, xmx=xmx, simulate=simulate, extra=extra), cwd=wd, env=env, stdout=fh, stderr=subprocess.STDOUT, timeout=timeout)
            rc = p.returncode
        except subprocess.TimeoutExpired:
            rc = "timeout"
    text = open(outp, errors="replace").read()
    out = {"cfg": cfg_name, "rc": rc, "wall_s": round(time.time() - t0, 1), "output": outp, "states": 0, "distinct": 0, "violated": None, "text": text}
    g = re.findall(r'(\d+) states generated, (\d+) distinct states found', text)
    if g:
        out["states"], out["distinct"] = int(g[-1][0]), int(g[-1][1])
    else:
        g = re.findall(r'Progress.*?(\d[\d,]*) states generated', text)
        if g:
            out["states"] = int(g[-1].replace(",", ""))
    v = re.search(r'(Invariant|Action property|Temporal properties|Property) (\S+) (is|was|were) violated', text)
    v2 = re.search(r'The invariant of (\S+) is equal to FALSE', text)
    if v:
        out["violated"] = v.group(2)
    elif v2:
        out["violated"] = v2.group(1)     # a constant-level invariant that is false is reported before Init
    elif "is violated" in text or "Error: The postcondition" in text:
        out["violated"] = "unknown"
    if rc == "timeout" and simulate is None:
        raise ToolError("TLC model checking timed out: %s" % cfg_name)
    if out["violated"] is None and rc not in (0, "timeout") and "Model checking completed. No error has been found" not in text and simulate is None:
        raise ToolError("TLC failed on %s (rc=%s):\n%s" % (cfg_name, rc, text[-3000:]))
    return out


# --------------------------------------------------------------------------- findings
def load_known():
    """Lines 'finding: property=<id> check=<name> match=<regex>' (suppress + announce) and 'fixed: ...' (suppress nothing)."""
    out = []
    if not os.path.exists(KNOWN):
        return out
    for line in open(KNOWN):
        line = line.strip()
        if not line.startswith("finding:"):
            continue
        m = re.match(r'finding:\s*property=(\S+)\s+check=(\S+)\s+match=(.*?)\s+::\s+(.*)$', line)
        if m:
            out.append({"property": m.group(1), "check": m.group(2), "re": re.compile(m.group(3)), "what": m.group(4)})
    return out


def history_of(shard_file, line):
    """The smallest prefix-closed context of the event at `line` (1-based) that the trace specification needs:
    board traces: the reset-delimited history; constructor traces: the last canonical / accepted base plus the event;
    value traces: the event alone; key-extraction traces: the whole prefix (keys accumulate)."""
    lines = open(shard_file).read().splitlines()
    ev = lines[line - 1]
    if ev.startswith('{"ev":"parse"') or ev.startswith('{"ev":"build"'):
        for k in range(line - 1, 0, -1):
            if '"gen":"canonical"' in lines[k - 1][:60] or '"gen":"accepted"' in lines[k - 1][:60]:
                return [lines[k - 1]] + ([ev] if k != line else [])
        return [ev]
    if re.match(r'\{"ev":"(bb_|pm|sq|offs|fr|txt|leap|bl|pq|sl|start)', ev):
        return [ev]
    if re.match(r'\{"ev":"(key|lin|table|extracted|decide)', ev):
        return lines[:line]
    start = line
    while start > 1 and not lines[start - 1].startswith('{"ev":"reset"'):
        start -= 1
    return lines[start - 1:line]


def save_replay(pid, seed, k, events, meta):
    os.makedirs(REPLAYS, exist_ok=True)
    path = os.path.join(REPLAYS, "%s-%d-%d.ndjson" % (pid, seed, k))
    with open(path, "w") as fh:
        for e in events:
            fh.write(e + "\n")
    with open(path + ".meta.json", "w") as fh:
        json.dump(meta, fh, indent=1)
    return path


def write_evidence(pid, tier, seed, coverage, wall, violations, assumptions):
    os.makedirs(EVIDENCE, exist_ok=True)
    ev = {"property_id": pid, "tier": tier, "seed": seed, "level": "model_checking", "coverage": coverage,
          "assumptions": assumptions, "wall_s": round(wall, 1), "violations": violations}
    with open(os.path.join(EVIDENCE, pid + ".json"), "w") as fh:
        json.dump(ev, fh, indent=1)
    return ev


def sample_events(shard_files, kinds, n=3):
    """A few actual events from the validated traces, shortened, for the evidence file."""
    out = []
    want = set(kinds)
    for f in shard_files[:2]:
        try:
            with open(f) as fh:
                for i, line in enumerate(fh):
                    m = re.match(r'\{"ev":"([a-z0-9_]+)"', line)
                    if m and m.group(1) in want:
                        out.append(line.strip()[:600])
                        want.discard(m.group(1))
                    if not want or i > 4000:
                        break
        except Exception:
            pass
    return out[: max(n, len(kinds))]


def sany(module):
    p = subprocess.run(["java", "-cp", TLA_CP, "tla2sany.SANY", os.path.join(SPEC, module + ".tla")], cwd=SPEC, stdout=subprocess.PIPE, stderr=subprocess.STDOUT, text=True)
    ok = p.returncode == 0 and "Semantic errors" not in p.stdout and "*** Errors" not in p.stdout and "Parsing or semantic analysis failed" not in p.stdout
    return ok, p.stdout


from runner import run_check, replay, setup, selftest   # noqa  (at the end: runner imports names from this module)
