#!/bin/bash
# benign_run.sh <name> <props...> : apply /verif/benign/<name>.diff (a change under which every property still holds)
# in an isolated copy of the library and of this directory, run the quick checks, expect exit 0 everywhere.
# /repo itself is never touched.  Scratch copies live in /tmp/benign and are removed with `benign_run.sh --clean`.
set -u
if [ "$1" = "--clean" ]; then
  git -C /repo worktree remove --force /tmp/benign/repo 2>/dev/null; git -C /verif worktree remove --force /tmp/benign/verif 2>/dev/null; rm -rf /tmp/benign; exit 0
fi
N=$1; shift
mkdir -p /tmp/benign
[ -d /tmp/benign/repo ] || git -C /repo worktree add -q --detach /tmp/benign/repo HEAD || exit 2
[ -d /tmp/benign/verif ] || git -C /verif worktree add -q --detach /tmp/benign/verif HEAD || exit 2
( cd /tmp/benign/verif && git checkout -q -- . && git checkout -q --detach "$(git -C /verif rev-parse HEAD)" && sed -i 's#/repo/cozy-chess#/tmp/benign/repo/cozy-chess#' harness/Cargo.toml ) || exit 2
( cd /tmp/benign/repo && git checkout -q -- . && git checkout -q --detach "$(git -C /repo rev-parse HEAD)" && git apply /verif/benign/$N.diff ) || exit 2
cd /tmp/benign/verif; bad=0
for p in "$@"; do
  out=$(./check $p quick 2>&1); rc=$?
  echo "$N $p exit=$rc $(echo "$out" | grep -E "HELD|VIOLATION|TOOL-ERROR" | head -2 | cut -c1-160 | tr '\n' '|')"
  [ $rc = 0 ] || { bad=1; echo "$out" | grep -E "check=" | head -5 | cut -c1-300; }
done
( cd /tmp/benign/repo && git checkout -q -- . )
exit $bad
