#!/usr/bin/env python3
"""mutants.py run <id> [props...] : apply /verif/seeded/<id>/patch.diff to /repo, run the quick checks of the listed
properties (default: the property in the id), undo the change, and record which checks caught it in
/verif/seeded/<id>/detect.json."""
import json, os, subprocess, sys, time
VERIF = os.path.dirname(os.path.dirname(os.path.abspath(__file__)))

def run(mid, props, tier="quick"):
    d = os.path.join(VERIF, "seeded", mid)
    patch = os.path.join(d, "patch.diff")
    st = subprocess.run(["git", "-C", "/repo", "status", "--porcelain", "--untracked-files=no"], capture_output=True, text=True).stdout.strip()
    if st:
        print("refusing: /repo working tree is not clean:\n" + st); return 2
    if subprocess.run(["git", "-C", "/repo", "apply", patch]).returncode != 0:
        print("patch does not apply"); return 2
    res = {}
    try:
        for p in props:
            t0 = time.time()
            r = subprocess.run([os.path.join(VERIF, "check"), p, tier], capture_output=True, text=True)
            lines = [l for l in r.stdout.splitlines() if l.startswith("VIOLATION") or l.startswith("  check=") or l.startswith("TOOL-ERROR")]
            res[p] = {"exit": r.returncode, "wall_s": round(time.time() - t0), "first": lines[:2]}
            print(mid, p, "exit", r.returncode, (lines[1][:160] if len(lines) > 1 else (lines[0][:160] if lines else "")), flush=True)
    finally:
        subprocess.run(["git", "-C", "/repo", "apply", "-R", patch])
        subprocess.run(["git", "-C", "/repo", "checkout", "--", "."])
    out = os.path.join(d, "detect.json")
    old = json.load(open(out)) if os.path.exists(out) else {}
    old.update({p: v for p, v in res.items()})
    json.dump(old, open(out, "w"), indent=1)
    return 0

if __name__ == "__main__":
    mid = sys.argv[2]
    props = sys.argv[3:] or [mid.split("-")[0]]
    sys.exit(run(mid, props))
