#!/bin/bash
# confirm_mutant.sh <id> <patch> <demo.rs> : confirm in a scratch worktree that the change compiles,
# passes the existing suite, and that the demonstration passes without and fails with the change.
# Writes /verif/seeded/<id>/{patch.diff,demo.rs,confirm.json}.  Never touches /repo's working tree.
set -u
ID=$1; PATCH=$2; DEMO=$3
W=${CONF_WORKER:-0}
WT=/tmp/conf/wt$W
export CARGO_TARGET_DIR=/tmp/conf/target${CONF_WORKER:-0} CARGO_NET_OFFLINE=true
if [ ! -d $WT ]; then git -C /repo worktree add --detach $WT HEAD -q || exit 2; fi
cd $WT || exit 2
git checkout -q --detach $(git -C /repo rev-parse HEAD) 2>/dev/null
git checkout -q -- . ; rm -f cozy-chess/tests/demo.rs; git clean -fdq -e target >/dev/null 2>&1
mkdir -p cozy-chess/tests /verif/seeded/$ID
cp $DEMO cozy-chess/tests/demo.rs
( cd cozy-chess && timeout 900 cargo test --offline --test demo >/tmp/conf/$ID.demo0.log 2>&1 ); D0=$?
if ! git apply --check $PATCH 2>/tmp/conf/$ID.apply.log; then APPLY=1; else APPLY=0; git apply $PATCH; fi
D1=-1; SUITE=-1
if [ $APPLY = 0 ]; then
  ( cd cozy-chess && timeout 900 cargo test --offline --test demo >/tmp/conf/$ID.demo1.log 2>&1 ); D1=$?
  rm -f cozy-chess/tests/demo.rs
  timeout 1800 cargo test --workspace --no-fail-fast --offline >/tmp/conf/$ID.suite.log 2>&1; SUITE=$?
fi
PASSED=$(grep -c "^test result: ok" /tmp/conf/$ID.suite.log 2>/dev/null)
git checkout -q -- . ; rm -f cozy-chess/tests/demo.rs; git clean -fdq -e target >/dev/null 2>&1
cp $PATCH /verif/seeded/$ID/patch.diff; cp $DEMO /verif/seeded/$ID/demo.rs
cat > /verif/seeded/$ID/confirm.json <<EOT
{"id":"$ID","repo_head":"$(git -C /repo rev-parse --short HEAD)","patch_applies":$((1-APPLY)),"demo_exit_without_patch":$D0,"demo_exit_with_patch":$D1,"suite_exit_with_patch":$SUITE,"suite_ok_result_lines":${PASSED:-0},
 "commands":["cargo test --offline --test demo (cozy-chess/tests/demo.rs) without and with patch","cargo test --workspace --no-fail-fast --offline with patch"]}
EOT
echo "$ID apply=$((1-APPLY)) demo_without=$D0 demo_with=$D1 suite=$SUITE"
