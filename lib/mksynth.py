#!/usr/bin/env python3
"""Regenerate roots/synth.sfen: a diverse selection of the positions TLC synthesises with spec/Gen_Stale.tla
(side to move not in check, king without a move, one own piece pinned).  Offline tool; the output is committed."""
import json, os, re, subprocess, sys, collections
VERIF = os.path.dirname(os.path.dirname(os.path.abspath(__file__)))
wd = os.path.join(VERIF, "work", "synth"); os.makedirs(wd, exist_ok=True)
cfg = os.path.join(wd, "gencfg.json"); json.dump({"mod": int(sys.argv[1]) if len(sys.argv) > 1 else 20, "rem": 3}, open(cfg, "w"))
cmd = ["java", "-XX:+UseParallelGC", "-Xss1g", "-Xmx6g", "-cp", "/opt/veriftools/tla/tla2tools.jar:/opt/veriftools/tla/CommunityModules-deps.jar", "tlc2.TLC",
       "-workers", "8", "-metadir", os.path.join(wd, "meta"), "-cleanup", "-noGenerateSpecTE", "-config", os.path.join(VERIF, "spec", "Gen_Stale.cfg"), os.path.join(VERIF, "spec", "Gen_Stale.tla")]
out = subprocess.run(cmd, env=dict(os.environ, GENCFG=cfg), capture_output=True, text=True).stdout
groups = collections.defaultdict(list)
for m in re.finditer(r'<<"GEN", "([^"]+)", (\d+), (\d+), (\d+), (\d+)>>', out):
    fen, n, pk, sk, d = m.group(1), int(m.group(2)), int(m.group(3)), int(m.group(4)), int(m.group(5))
    stm = fen.split(" ")[1]
    groups[(n == 0, pk, sk, d <= 4, stm)].append(fen)
sel = []
for k in sorted(groups):
    v = sorted(groups[k])
    sel += [v[0], v[len(v) // 2]] if len(v) > 1 else v
sel = sorted(set(sel))
with open(os.path.join(VERIF, "roots", "synth.sfen"), "w") as fh:
    fh.write("# synthesised by TLC from spec/Gen_Stale.tla (lib/mksynth.py): not in check, king cannot move, one own piece pinned\n")
    for f in sel:
        fh.write(f + "\n")
    fh.write("# the same placements with the other side to move: a null move from these leads into the positions above\n")
    for f in sel:
        x = f.split(" ")
        x[1] = "w" if x[1] == "b" else "b"
        fh.write(" ".join(x) + "\n")
print(len(sel), "positions in", len(groups), "groups")
