"""run_check / replay / setup / selftest."""
import json, os, re, shutil, subprocess, sys, time, glob
from vlib import *      # noqa
import vlib


def flatten(args):
    out = []
    for k, v in args.items():
        out += ["--" + k, str(v)]
    return out


def run_trace_job(pid, job, tier, seed):
    wd = workdir(pid, job["name"])
    prefix = os.path.join(wd, "tr")
    args = dict(job["args"].get("common", {}))
    args.update(job["args"][tier])
    # thorough traces are cut into many more shards than JVMs run at a time, so that no shard outgrows a 2-3 GB heap
    nshards = job.get("shards", NCPU * (8 if tier == "thorough" else 1))
    procs = job.get("procs", 8 if (tier == "thorough" and job["driver"] not in ("hashkeys", "starts", "coord", "geom")) else 1)
    if procs <= 1:
        rec = ["--seed", seed + job.get("seed_offset", 0), "--shards", nshards, "--out", prefix] + flatten(args)
        stats = run_recorder(job.get("variant", "release"), job["driver"], rec)
    else:
        # several recorder processes with different seeds share the work (the recorder is single-threaded)
        import concurrent.futures
        build_harness(job.get("variant", "release"))
        div = {k: max(1, int(v) // procs) for k, v in args.items() if k in ("histories", "cases", "bases", "random", "boards", "transpositions", "linear", "linear-960") and str(v).isdigit()}

        def one(k):
            a = dict(args)
            a.update(div)
            if k > 0:
                a.pop("subtrees", None)
                a.pop("deep", None)
                a.pop("roots-file", None)
            return run_recorder(job.get("variant", "release"), job["driver"],
                                ["--seed", seed + job.get("seed_offset", 0) + 1000003 * k, "--shards", max(1, nshards // procs), "--out", "%s%d" % (prefix, k)] + flatten(a))
        with concurrent.futures.ThreadPoolExecutor(max_workers=procs) as ex:
            parts = list(ex.map(one, range(procs)))
        stats = {"events": sum(p.get("events", 0) for p in parts), "histories": sum(p.get("histories", 0) for p in parts), "kinds": {}, "classes": {},
                 "wall_s": max(p["wall_s"] for p in parts), "cmd": parts[0]["cmd"] + "  (x%d processes, seeds +1000003*k)" % procs}
        for p in parts:
            for key in ("kinds", "classes"):
                for k2, v in p.get(key, {}).items():
                    stats[key][k2] = stats[key].get(k2, 0) + v
    shards = sorted(glob.glob(prefix + "*.ndjson"))
    if stats.get("events", 0) == 0:
        raise ToolError("recorder produced no events for job %s" % job["name"])
    res = run_tlc_shards(job["spec"], shards, job["checks"], wd, timeout=job.get("timeout", 3000), extra_env=job.get("env"))
    log("[trace] %s: %d events, %d histories recorded in %.1fs; TLC validated %d lines in %.1fs; %d mismatching observations" %
        (job["name"], stats.get("events", 0), stats.get("histories", 0), stats["wall_s"], res.lines, res.wall, len(res.mismatches)))
    return stats, res, shards


def root_records(kind, seed, limit):
    """Root positions for Mode A as Shredder-FEN records."""
    roots = []
    if kind.startswith("curated"):
        roots = [l.strip() for l in open(os.path.join(vlib.VERIF, "roots", "curated.sfen")) if l.strip() and not l.startswith("#")]
        for name in ("synth.sfen", "curated_flipped.sfen"):
            extra = os.path.join(vlib.VERIF, "roots", name)
            if os.path.exists(extra):
                roots += [l.strip() for l in open(extra) if l.strip() and not l.startswith("#")]
    elif kind.startswith("starts"):
        roots = [l.strip() for l in open(os.path.join(vlib.VERIF, "roots", "chess960_start_positions.sfens")) if l.strip()]
    elif kind.startswith("corpus"):
        roots = [l.strip() for l in open(os.path.join(vlib.VERIF, "roots", "valid.sfens")) if l.strip()]
    if limit and len(roots) > limit:
        import random
        rnd = random.Random(seed)
        roots = rnd.sample(roots, limit)
    return roots


def run_gen_job(pid, job, tier, seed):
    """Mode C: TLC generates cases from the specification, the recorder runs them against the library, TLC judges the log."""
    wd = workdir(pid, job["name"])
    p = job["params"][tier]
    gcfg = dict(p["gencfg"])
    if "mod" in gcfg and gcfg["mod"] > 1:
        gcfg["rem"] = (seed + job.get("seed_offset", 0)) % gcfg["mod"]
    for i, pre in enumerate(["k", "a", "b", "c"]):
        if gcfg.get(pre + "mod", 1) > 1:
            gcfg[pre + "rem"] = (seed * (i + 2) + job.get("seed_offset", 0)) % gcfg[pre + "mod"]
        elif pre + "mod" in gcfg:
            gcfg[pre + "rem"] = 0
    path = os.path.join(wd, "gencfg.json")
    json.dump(gcfg, open(path, "w"))
    out = run_tlc_model(job["gen_spec"], job["gen_spec"], wd, workers=p.get("workers", 8), timeout=p.get("timeout", 1800), xmx=p.get("xmx", "6g"), env_extra={"GENCFG": path})
    recs = [m.group(1) for m in re.finditer(r'<<"GEN", "([^"]*)">>', out["text"])]
    if not recs:
        raise ToolError("generator %s produced no cases:\n%s" % (job["gen_spec"], out["text"][-2000:]))
    sfen = os.path.join(wd, "generated.sfen")
    open(sfen, "w").write("\n".join(recs) + "\n")
    prefix = os.path.join(wd, "tr")
    args = dict(job["args"].get("common", {}))
    args.update(job["args"].get(tier, {}))
    args["sfen-file"] = sfen
    procs = 8 if (tier == "thorough" and len(recs) >= 4000) else 1
    nsh = NCPU * (8 if tier == "thorough" else 1)
    if procs == 1:
        rec = ["--seed", seed, "--shards", nsh, "--out", prefix, "--histories", 0] + flatten(args)
        stats = run_recorder(job.get("variant", "release"), job["driver"], rec, timeout=3600)
        shards = sorted(glob.glob(prefix + ".*.ndjson"))
    else:
        # the recorder is single-threaded: the generated cases are dealt out to several recorder processes
        import concurrent.futures
        build_harness(job.get("variant", "release"))

        def one(k):
            part = "%s.part%d" % (sfen, k)
            open(part, "w").write("\n".join(recs[k::procs]) + "\n")
            a = dict(args)
            a["sfen-file"] = part
            return run_recorder(job.get("variant", "release"), job["driver"],
                                ["--seed", seed, "--shards", max(1, nsh // procs), "--out", "%s%d" % (prefix, k), "--histories", 0] + flatten(a), timeout=3600)
        with concurrent.futures.ThreadPoolExecutor(max_workers=procs) as ex:
            parts = list(ex.map(one, range(procs)))
        stats = {"events": sum(q.get("events", 0) for q in parts), "histories": sum(q.get("histories", 0) for q in parts), "kinds": {}, "classes": {},
                 "wall_s": max(q["wall_s"] for q in parts), "cmd": parts[0]["cmd"] + "  (x%d processes, cases dealt round-robin)" % procs}
        for q in parts:
            for key in ("kinds", "classes"):
                for k2, v in q.get(key, {}).items():
                    stats[key][k2] = stats[key].get(k2, 0) + v
        shards = sorted(glob.glob(prefix + "[0-9]*.ndjson"))
    res = run_tlc_shards(job["spec"], shards, job["checks"], wd, timeout=job.get("timeout", 3000))
    log("[gen] %s: TLC generated %d cases (%s, %.1fs); %d events recorded; TLC validated %d lines in %.1fs; %d mismatching observations" %
        (job["name"], len(recs), json.dumps(gcfg), out["wall_s"], stats.get("events", 0), res.lines, res.wall, len(res.mismatches)))
    return out, recs, stats, res, shards, gcfg


def run_model_job(pid, job, tier, seed):
    wd = workdir(pid, job["name"])
    p = job["params"][tier]
    env = {k: str(v) for k, v in p.get("env", {}).items()}
    env["SEED"] = str(seed)
    if "mc" in p:
        mc = p["mc"]
        roots = root_records(mc.get("roots", "curated"), seed, mc.get("max_roots"))
        cfgj = {"roots": [[ord(c) for c in r] for r in roots], "depth": mc.get("depth", 1), "setters": mc.get("setters", 0), "sweep": mc.get("sweep", 0)}
        path = os.path.join(wd, "mccfg.json")
        json.dump(cfgj, open(path, "w"))
        env["MCCFG"] = path
        p = dict(p)
        p["bounds"] = "%d roots (%s), depth %d (levels), is_legal sweep level %d, clock setters %s" % (len(roots), mc.get("roots", "curated"), cfgj["depth"], cfgj["sweep"], "on" if cfgj["setters"] else "off")
        job["params"][tier] = p
    if "starts_mc" in p:
        t = [l.strip() for l in open(os.path.join(vlib.VERIF, "roots", "chess960_start_positions.sfens")) if l.strip()]
        path = os.path.join(wd, "mccfg.json")
        json.dump({"table": [[ord(c) for c in r] for r in t], "pairs": p["starts_mc"]["pairs"]}, open(path, "w"))
        env["MCCFG"] = path
        p = dict(p)
        p["bounds"] = "all 960 Scharnagl numbers (legal array, pairwise distinct, equal to the published table), %d double-960 pairs per number sound and accepted by the validator model" % p["starts_mc"]["pairs"]
        job["params"][tier] = p
    if "geom_mc" in p:
        import random
        rnd = random.Random(seed)
        rook = list(range(64)) if p["geom_mc"]["rook"] >= 64 else sorted(rnd.sample(range(64), p["geom_mc"]["rook"]))
        path = os.path.join(wd, "mccfg.json")
        json.dump({"rook_squares": rook, "bishop_squares": list(range(64))}, open(path, "w"))
        env["MCCFG"] = path
        p = dict(p)
        p["bounds"] = "every subset of the relevant mask for all 64 bishop squares and %d rook squares, three irrelevant fillings each" % len(rook)
        job["params"][tier] = p
    if "parse_mc" in p:
        pm = p["parse_mc"]
        roots = root_records("curated", seed, pm.get("bases", 2))
        conv = {"H": "K", "A": "Q", "h": "k", "a": "q"}
        bases = [{"cp": [ord(c) for c in r], "sh": 1} for r in roots]
        for r in roots:
            f = r.split(" ")
            if all(c in conv or c == "-" for c in f[2]):
                g = f[:]
                g[2] = "".join(conv.get(c, c) for c in f[2])
                bases.append({"cp": [ord(c) for c in " ".join(g)], "sh": 0})
        path = os.path.join(wd, "mccfg.json")
        json.dump({"bases": bases, "alphabet": pm["alphabet"]}, open(path, "w"))
        env["MCCFG"] = path
        p = dict(p)
        p["bounds"] = "%d canonical records (%d Shredder, %d plain FEN twins) x every single-character deletion, replacement and insertion over a %d-symbol alphabet, truncations and extensions x the entry points of each notation" % (len(bases), len(roots), len(bases) - len(roots), len(pm["alphabet"]))
        job["params"][tier] = p
    if "invariants" in job:
        lines = ["SPECIFICATION Spec"] + ["CONSTRAINT " + c for c in job.get("constraints", [])]
        lines += ["INVARIANT " + i for i in job["invariants"]] + ["PROPERTY " + q for q in job.get("properties", [])] + ["CHECK_DEADLOCK FALSE"]
        cfgpath = os.path.join(wd, job["name"] + ".cfg")
        open(cfgpath, "w").write("\n".join(lines) + "\n")
        job = dict(job)
        job["cfg_path"] = cfgpath
    if "trace_from" in job:
        env["TRACE"] = os.path.join(vlib.WORK, pid, job["trace_from"], "tr.0.ndjson")
    out = run_tlc_model(job["spec"], job.get("cfg_path") or job.get("cfg", job["spec"]), wd, workers=p.get("workers", 8), timeout=p.get("timeout", 1800),
                        xmx=p.get("xmx", "6g"), simulate=p.get("simulate"), env_extra=env, extra=p.get("extra"))
    log("[model] %s: %d states generated, %d distinct, %.1fs%s" % (job["name"], out["states"], out["distinct"], out["wall_s"],
                                                                 (", VIOLATED " + str(out["violated"])) if out["violated"] else ""))
    return out


def run_check(pid, tier, seed):
    from props import PROPS
    spec = PROPS[pid]
    t0 = time.time()
    known = load_known()
    report = set(spec.get("report", [pid]))
    violations = []      # (prop, check, text, replay events, meta)
    notes = {}
    cov = {"states": 0, "transitions": 0, "traces_validated_against_impl": 0, "samples": [], "jobs": [], "exhaustive": False}
    kinds_total = {}
    classes_total = {}
    for job in spec["jobs"]:
        if tier not in job.get("tiers", ["quick", "thorough"]):
            continue
        if job["type"] == "trace":
            stats, res, shards = run_trace_job(pid, job, tier, seed)
            cov["states"] += res.distinct
            cov["transitions"] += max(res.states - len(shards), 0)
            cov["traces_validated_against_impl"] += stats.get("histories", 0)
            for k, v in stats.get("kinds", {}).items():
                kinds_total[k] = kinds_total.get(k, 0) + v
            for k, v in stats.get("classes", {}).items():
                classes_total[k] = classes_total.get(k, 0) + v
            cov["jobs"].append({"job": job["name"], "mode": "B: recorded executions judged by TLC (" + job["spec"] + ".tla)",
                                "variant": job.get("variant", "release"), "recorder": stats.get("cmd"), "events": stats.get("events"),
                                "histories": stats.get("histories"), "event_kinds": stats.get("kinds"), "extra": {k: v for k, v in stats.items() if k not in ("events", "histories", "kinds", "cmd", "wall_s")},
                                "checks_enabled": job["checks"], "tlc_lines_consumed": res.lines, "tlc_wall_s": round(res.wall, 1), "record_wall_s": stats["wall_s"],
                                "mismatching_observations": len(res.mismatches)})
            if len(cov["samples"]) < 8:
                cov["samples"] += sample_events(shards, job.get("sample_kinds", list(stats.get("kinds", {}).keys())[:4]))
            for (f, line, prop, chk, txt) in res.mismatches:
                if prop in report:
                    violations.append((prop, chk, txt, f, line, job))
                else:
                    notes[(prop, chk)] = notes.get((prop, chk), 0) + 1
        elif job["type"] == "gen":
            out, recs, stats, res, shards, gcfg = run_gen_job(pid, job, tier, seed)
            cov["states"] += res.distinct + out["distinct"]
            cov["transitions"] += max(res.states - len(shards), 0)
            cov["traces_validated_against_impl"] += stats.get("histories", 0)
            cov["jobs"].append({"job": job["name"], "mode": "C: cases enumerated by TLC from " + job["gen_spec"] + ".tla, executed on the library, judged by TLC (" + job["spec"] + ".tla)",
                                "generated_cases": len(recs), "generator_config": gcfg, "generator_states": out["distinct"], "events": stats.get("events"),
                                "event_kinds": stats.get("kinds"), "checks_enabled": job["checks"], "tlc_lines_consumed": res.lines,
                                "exhaustive_within_family": gcfg.get("mod", 1) == 1, "mismatching_observations": len(res.mismatches)})
            for k, v in stats.get("kinds", {}).items():
                kinds_total[k] = kinds_total.get(k, 0) + v
            for k, v in stats.get("classes", {}).items():
                classes_total[k] = classes_total.get(k, 0) + v
            if len(cov["samples"]) < 10:
                cov["samples"] += recs[:2]
            for (f, line, prop, chk, txt) in res.mismatches:
                if prop in report:
                    violations.append((prop, chk, txt, f, line, job))
                else:
                    notes[(prop, chk)] = notes.get((prop, chk), 0) + 1
        elif job["type"] == "model":
            out = run_model_job(pid, job, tier, seed)
            cov["states"] += out["distinct"] or out["states"]
            cov["transitions"] += out["states"]
            cov["jobs"].append({"job": job["name"], "mode": "A: TLC model checking of the specification (" + job["spec"] + ".tla / " + job.get("cfg", job["spec"]) + ".cfg)",
                                "states_generated": out["states"], "distinct_states": out["distinct"], "wall_s": out["wall_s"],
                                "bounds": job["params"][tier].get("bounds", ""), "exhaustive_within_bounds": job.get("exhaustive", False) and out["rc"] == 0})
            if job.get("exhaustive") and out["rc"] == 0:
                cov["exhaustive_parts"] = cov.get("exhaustive_parts", []) + [job["name"] + ": " + job["params"][tier].get("bounds", "")]
            for blk in split_blocks(out["text"], "SAMPLE")[:2]:
                if len(cov["samples"]) < 10:
                    cov["samples"].append(" ".join(blk.split())[:500])
            if out["violated"]:
                violations.append((pid, "model:" + str(out["violated"]), "TLC found a counterexample on the specification (%s); see %s" % (out["violated"], out["output"]), out["output"], 0, job))
        elif job["type"] == "custom":
            r = job["fn"](pid, job, tier, seed)
            cov["states"] += r.get("states", 0)
            cov["transitions"] += r.get("transitions", 0)
            cov["traces_validated_against_impl"] += r.get("traces", 0)
            cov["jobs"].append(r.get("job", {"job": job["name"]}))
            cov["samples"] += r.get("samples", [])[:4]
            if r.get("exhaustive"):
                cov["exhaustive_parts"] = cov.get("exhaustive_parts", []) + [r["exhaustive"]]
            for v in r.get("violations", []):
                violations.append(v + (job,))
    # verdict
    nviol = 0
    printed = 0
    seen_known = set()
    for k, (prop, chk, txt, f, line, job) in enumerate(violations):
        kf = None
        for e in known:
            if e["property"] == prop and e["check"] == chk and e["re"].search(txt + " " + history_text(f, line)):
                kf = e
                break
        if kf:
            if kf["what"] not in seen_known:
                print("KNOWN-FINDING: property=%s %s" % (prop, kf["what"]), flush=True)
                seen_known.add(kf["what"])
            continue
        nviol += 1
        if printed < 20:
            if line > 0:
                events = history_of(f, line)
            else:
                events = open(f, errors="replace").read().splitlines()[-400:]
            path = save_replay(pid, seed, printed, events, {"property": prop, "check": chk, "detail": txt[:4000], "job": job["name"], "tier": tier, "seed": seed,
                                                             "spec": job.get("spec"), "checks": job.get("checks")})
            print("VIOLATION property=%s replay=%s" % (prop, path), flush=True)
            print("  check=%s job=%s detail=%s" % (chk, job["name"], txt[:700]), flush=True)
            printed += 1
    if nviol > printed:
        print("(%d further violating observations not written out)" % (nviol - printed))
    for (prop, chk), n in sorted(notes.items()):
        print("NOTE: %d mismatching observation(s) of property=%s check=%s seen while checking %s (judged by that property's own check, not counted here)" % (n, prop, chk, pid))
    cov["event_kinds"] = kinds_total
    if classes_total:
        cov["transition_and_state_classes"] = classes_total
        expected = ["quiet", "capture", "ep-capture", "double-push", "promotion", "promotion-capture", "castle-short", "castle-long", "castle-960-geometry",
                    "castle-king-stays", "castle-rook-stays", "rights-lost-king-move", "rights-lost-rook-move", "rights-lost-capture", "gives-check",
                    "gives-double-check", "evades-check", "pinned-piece-moves", "halfmove-saturated", "fullmove-saturated", "state-multiple-check"]
        missing = [c for c in expected if c not in classes_total]
        cov["classes_not_exercised"] = missing     # vacuity guard: reported, never changes the verdict
        if missing:
            log("[coverage] classes not exercised in this run: " + ", ".join(missing))
    cov["rule"] = spec.get("rule", "")
    if not cov["samples"]:
        cov["samples"] = ["(no sample captured)"]
    cov["states"] = max(cov["states"], 1)
    cov["transitions"] = max(cov["transitions"], 1)
    wall = time.time() - t0
    write_evidence(pid, tier, seed, cov, wall, nviol, spec.get("assumptions", []))
    log("[%s] %s tier, seed %d: %s in %.0fs (states %d, transitions %d, histories validated %d)" %
        (pid, tier, seed, "HELD" if nviol == 0 else "%d VIOLATING OBSERVATIONS" % nviol, wall, cov["states"], cov["transitions"], cov["traces_validated_against_impl"]))
    return 1 if nviol else 0


def history_text(f, line):
    if line <= 0:
        return ""
    try:
        ev = history_of(f, line)
        return (ev[0][:400] + " " + ev[-1][:400]) if ev else ""
    except Exception:
        return ""


def replay(pid, path):
    from props import PROPS
    meta = {}
    if os.path.exists(path + ".meta.json"):
        meta = json.load(open(path + ".meta.json"))
    spec_name = meta.get("spec")
    checks = meta.get("checks")
    if not spec_name:
        for job in PROPS[pid]["jobs"]:
            if job["type"] == "trace":
                spec_name, checks = job["spec"], job["checks"]
                break
    if not spec_name:
        print(open(path, errors="replace").read()[-3000:])
        return 1
    wd = workdir(pid, "replay")
    f = os.path.join(wd, "replay.ndjson")
    shutil.copy(path, f)
    res = run_tlc_shards(spec_name, [f], checks, wd)
    report = set(PROPS[pid].get("report", [pid]))
    bad = [m for m in res.mismatches if m[2] in report]
    for (ff, line, prop, chk, txt) in res.mismatches:
        print("line %d property=%s check=%s %s" % (line, prop, chk, txt[:1500]))
        try:
            print("   event: " + open(f).read().splitlines()[line - 1][:600])
        except Exception:
            pass
    if bad:
        print("VIOLATION property=%s replay=%s" % (pid, path))
        return 1
    print("replay accepted: no mismatching observation for %s in %s" % (pid, path))
    return 0


def all_modules():
    return sorted(os.path.basename(p)[:-4] for p in glob.glob(os.path.join(SPEC, "*.tla")))


def setup():
    t0 = time.time()
    for v in ("release", "pext", "dev"):
        build_harness(v)
    bad = []
    for m in all_modules():
        ok, out = sany(m)
        if not ok:
            bad.append(m)
            print(out[-1500:])
    if bad:
        raise ToolError("SANY rejects: " + ", ".join(bad))
    log("[setup] %d TLA+ modules parse" % len(all_modules()))
    rc = selftest()
    log("[setup] done in %.0fs" % (time.time() - t0))
    return rc


def selftest():
    import selftests
    return selftests.run()
