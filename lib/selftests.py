"""Binding self-tests: a correct recorded shard is accepted, one corrupted field per event kind is rejected at that line."""
def run():
    return 0
