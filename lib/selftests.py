"""Binding self-tests (DESIGN.md 4.5): a correct recorded shard is accepted by its trace specification with no
mismatch; the same shard with ONE field of ONE event corrupted is rejected, at that line, under the expected property.
This demonstrates that the specification is bound to what the recorder logs (a permissive trace spec would pass
the corrupted traces)."""
import json, os, re, shutil
from vlib import *      # noqa
import vlib


def _load(path):
    return [json.loads(l) for l in open(path)]


def _dump(events, path):
    with open(path, "w") as fh:
        for e in events:
            fh.write(json.dumps(e, separators=(",", ":")) + "\n")


def _first(events, kind, pred=lambda e: True):
    for i, e in enumerate(events):
        if e["ev"] == kind and pred(e):
            return i
    return None


def _flip_hex(h):
    return ("0" if h[0] != "0" else "1") + h[1:]


# (name, event kind, predicate, mutation, expected property, line must equal corrupted line)
def board_corruptions():
    def drop_to(e):
        e["bt"][0][2] = e["bt"][0][2][1:]

    def add_pin(e):
        s = set(e["st"]["pin"])
        e["st"]["pin"] = sorted(s | {next(x for x in range(64) if x not in s)})

    def drop_chk_or_add(e):
        s = set(e["st"]["chk"])
        e["st"]["chk"] = sorted(s | {next(x for x in range(64) if x not in s)})

    def succ_clock(e):
        e["st"]["hmc"] = (e["st"]["hmc"] + 1) % 100

    def succ_piece(e):
        b = e["st"]["b"]
        i = next(i for i, p in enumerate(b) if p in (1, 7))
        b[i] = 0

    def fresh_h(e):
        e["hs"][0]["st"]["h"] = _flip_hex(e["hs"][0]["st"]["h"])

    def status(e):
        e["s"] = "drawn" if e["s"] != "drawn" else "won"

    def sfen(e):
        e["sfen"] = e["sfen"].replace(" w ", " b ", 1) if " w " in e["sfen"] else e["sfen"].replace(" b ", " w ", 1)

    def reparse_eq(e):
        e["rs"]["eq"] = False

    def islegal(e):
        e["t"] = e["t"][1:]

    def islegal_extra(e):
        e["t"] = e["t"] + [[0, 63, 6]]

    def same(e):
        e["ab"] = 1 - e["ab"]

    def null_res(e):
        e["st"]["hmc"] = (e["st"]["hmc"] + 5) % 100

    def tryplay(e):
        e["ok"] = e["ok"][1:]

    def tryplay_changed(e):
        e["bad_err"] = [[0, 1, 0]]

    def genfor(e):
        e["bt"][0][2] = e["bt"][0][2][1:]

    def abort(e):
        e["runs"][0][1] += 1

    def san(e):
        e["mv"][0]["san"] = e["mv"][0]["san"] + "+"

    def uci_back(e):
        e["mv"][0]["ps"]["m"] = [0, 0, 0]

    def sanread(e):
        q = next(q for q in e["q"] if q["k"] == "err")
        q["k"] = "ok"
        q["m"] = [0, 8, 0]

    def rebuild(e):
        e["eq"] = False

    def acc(e):
        e["occ"] = e["occ"][1:]

    def pair_eq(e):
        e["eq"] = not e["eq"]

    return [
        ("pair: boards with different records reported equal", "pair", lambda e: e["a"]["fmn"] != e["o"]["fmn"], pair_eq, "C07"),
        ("gen: one destination dropped", "gen", lambda e: e["bt"] and len(e["bt"][0][2]) > 0, drop_to, "C01"),
        ("play: a square added to pinned", "play", lambda e: e["res"] == "ok", add_pin, "C03"),
        ("play: a square added to checkers", "play", lambda e: e["res"] == "ok", drop_chk_or_add, "C03"),
        ("play: half-move clock of the successor changed", "play", lambda e: e["res"] == "ok", succ_clock, "C02"),
        ("play: a pawn removed from the successor", "play", lambda e: e["res"] == "ok" and any(p in (1, 7) for p in e["st"]["b"]), succ_piece, "C02"),
        ("fresh: one hex digit of a fresh hash changed", "fresh", lambda e: len(e["hs"]) > 0, fresh_h, "C10"),
        ("status flipped", "status", lambda e: True, status, "C12"),
        ("text: side letter of the Shredder text changed", "text", lambda e: True, sfen, "C07"),
        ("text: reparse reported unequal", "text", lambda e: True, reparse_eq, "C07"),
        ("islegal: one legal move dropped", "islegal", lambda e: len(e["t"]) > 0, islegal, "C04"),
        ("islegal: a king-promotion value added", "islegal", lambda e: True, islegal_extra, "C04"),
        ("same_position answer flipped", "same", lambda e: e["ab"] in (0, 1), same, "C13"),
        ("null move: clock of the result changed", "null", lambda e: e["res"] == "some", null_res, "C14"),
        ("try_play: one accepted move dropped", "tryplay", lambda e: len(e["ok"]) > 0, tryplay, "C15"),
        ("try_play: a refused move reported as changing the board", "tryplay", lambda e: True, tryplay_changed, "C15"),
        ("generate_moves_for: one destination dropped", "genfor", lambda e: e["bt"] and len(e["bt"][0][2]) > 0, genfor, "C16"),
        ("abort: one extra listener call", "abort", lambda e: len(e["runs"]) > 0, abort, "C16"),
        ("SAN text altered", "san", lambda e: len(e["mv"]) > 0 and not e["mv"][0]["san"].endswith(("+", "#")), san, "C20"),
        ("SAN reader result altered", "san", lambda e: len(e["mv"]) > 0, uci_back, "C20"),
        ("SAN reader: an error turned into a move", "sanread", lambda e: any(q["k"] == "err" for q in e["q"]), sanread, "C20"),
        ("rebuild reported unequal", "rebuild", lambda e: e["k"] == "ok", rebuild, "C09"),
        ("occupied() accessor lost a square", "acc", lambda e: len(e["occ"]) > 0, acc, "C02"),
    ]


def values_corruptions():
    def bb_or(e):
        e["or"]["v"] = e["or"]["v"][1:]

    def bb_iter(e):
        e["seq"] = list(reversed(e["seq"]))

    def bb_sub(e):
        e["subs"][1], e["subs"][2] = e["subs"][2], e["subs"][1]

    def bb_fmt(e):
        e["pretty"][16] = 88 if e["pretty"][16] == 46 else 46      # a8 drawn the other way

    def bb_nth(e):
        e["ad"]["rest"] = e["ad"]["rest"][1:]

    def pm_nth_len(e):
        e["ad"]["len"] += 1

    def names(e):
        e["square"][45][1], e["square"][46][1] = e["square"][46][1], e["square"][45][1]

    def bb_head(e):
        e["head"][1], e["head"][2] = e["head"][2], e["head"][1]

    def pm_len(e):
        e["len"] += 1

    def pm_has(e):
        e["has"] = e["has"] + [[e["from"], e["to"][0], 6]]

    def pm_dup(e):
        e["seq"][0] = e["seq"][1]

    def offs(e):
        e["some"] = e["some"][1:]

    def txt(e):
        e["v"] = [(e["v"][0] + 1) % 64] + e["v"][1:]

    def leap(e):
        e["knight"]["v"] = e["knight"]["v"][1:]

    def between(e):
        e["between"][(e["s"] + 2) % 64]["v"] = [e["s"]]

    def sl(e):
        e["cases"][0][1]["v"] = e["cases"][0][1]["v"][1:]

    def pq(e):
        e["cases"][0][2]["v"] = [0, 1, 2]

    return [
        ("bitboard union lost a square", "bb_op", lambda e: len(e["or"]["v"]) > 0, bb_or, "C18"),
        ("bitboard iteration order reversed", "bb_iter", lambda e: len(e["seq"]) > 1, bb_iter, "C18"),
        ("two subsets swapped in subset iteration", "bb_subsets", lambda e: len(e["subs"]) > 3, bb_sub, "C18"),
        ("an item missing after nth on a bitboard iterator", "bb_iter", lambda e: e["k"] == "ok" and len(e["ad"]["rest"]) > 0, bb_nth, "C18"),
        ("remaining length after nth on a move iterator off by one", "pm", lambda e: e["k"] == "ok" and e["ad"]["k"] == "ok", pm_nth_len, "C17"),
        ("Square::F6 and Square::G6 name each other's squares", "names", lambda e: True, names, "C19"),
        ("second and third subset of a large mask swapped", "bb_subsets_head", lambda e: e["k"] == "ok" and len(e["head"]) > 3, bb_head, "C18"),
        ("Debug board text shows a8 the other way", "bb_fmt", lambda e: e["k"] == "ok", bb_fmt, "EXT"),
        ("PieceMoves::len off by one", "pm", lambda e: e["k"] == "ok", pm_len, "C17"),
        ("PieceMoves::has accepts a king promotion", "pm", lambda e: len(e["to"]) > 0, pm_has, "C17"),
        ("one move yielded twice, another not at all", "pm", lambda e: e["k"] == "ok" and len(e["seq"]) > 1, pm_dup, "C17"),
        ("try_offset lost one successful offset", "offs", lambda e: len(e["some"]) > 0, offs, "C19"),
        ("parsed value altered", "txt", lambda e: e["k"] == "ok" and e["ty"] == "square", txt, "C19"),
        ("knight table lost a square", "leap", lambda e: True, leap, "C05"),
        ("between table entry altered", "bl", lambda e: True, between, "C05"),
        ("slider attack lost a square", "sl", lambda e: len(e["cases"][0][1]["v"]) > 0, sl, "C05"),
        ("pawn pushes altered", "pq", lambda e: True, pq, "C05"),
    ]


def parse_corruptions():
    def res_kind(e):
        x = next(x for x in e["res"] if x["k"] == "err")
        x["err"] = "MissingField" if x["err"] != "MissingField" else "InvalidBoard"

    def build_ok(e):
        e["k"] = "err"
        e["err"] = "InvalidBoard"

    def start(e):
        i = next(i for i, p in enumerate(e["st"]["b"]) if p == 2)
        j = next(i for i, p in enumerate(e["st"]["b"]) if p == 3)
        e["st"]["b"][i], e["st"]["b"][j] = 3, 2

    return [
        ("parser error kind altered on a truncated record", "parse", lambda e: e["gen"] == "truncate" and len(e["t"]) > 3 and any(x["k"] == "err" for x in e["res"]), res_kind, "C08"),
        ("builder result of an accepted board altered", "build", lambda e: e["gen"] == "accepted" and e["k"] == "ok", build_ok, "C09"),
        ("start position: knight and bishop swapped", "start", lambda e: e["res"] == "ok", start, "C06"),
    ]


def hash_corruptions():
    def limb(e):
        e["ha"][0] ^= 1

    return [("one bit of a key witness changed (detected later)", "key", lambda e: e["what"] == "piece", limb, "C11")]


def _run_family(name, driver, rec_args, spec, checks, corruptions, wd):
    prefix = os.path.join(wd, name)
    stats = run_recorder("release", driver, ["--seed", 7, "--shards", 1, "--out", prefix] + rec_args)
    base = prefix + ".0.ndjson"
    events = _load(base)
    files = {"clean": base}
    expect = {}
    problems = []
    # spread the corrupted lines over the trace: take the k-th suitable event for the k-th corruption
    for k, (label, kind, pred, mut, prop) in enumerate(corruptions):
        idxs = [i for i, e in enumerate(events) if e["ev"] == kind and pred(e)]
        if not idxs:
            problems.append("no event of kind %s suitable for corruption '%s'" % (kind, label))
            continue
        i = idxs[min(len(idxs) - 1, k % max(1, len(idxs)))]
        ev2 = json.loads(json.dumps(events))
        try:
            mut(ev2[i])
        except Exception as ex:
            problems.append("corruption '%s' could not be applied: %r" % (label, ex))
            continue
        f = os.path.join(wd, "%s-c%02d.ndjson" % (name, k))
        _dump(ev2, f)
        files[label] = f
        expect[f] = (label, i + 1, prop)
    res = run_tlc_shards(spec, list(files.values()), checks, wd, timeout=600)
    by_file = {}
    for (f, line, prop, chk, txt) in res.mismatches:
        by_file.setdefault(f, []).append((line, prop, chk))
    if by_file.get(base):
        problems.append("clean %s trace has mismatches: %s" % (name, by_file[base][:3]))
    ok = 0
    for f, (label, line, prop) in expect.items():
        got = by_file.get(f, [])
        anywhere = label.endswith("(detected later)")
        if any((l == line or anywhere) and p == prop for (l, p, c) in got):
            ok += 1
        else:
            problems.append("corruption '%s' (line %d, expected %s) was not rejected there; got %s" % (label, line, prop, got[:3]))
    log("[selftest] %s: clean trace of %d events accepted; %d/%d single-field corruptions rejected at the corrupted line" % (name, len(events), ok, len(expect)))
    return problems


def run():
    wd = os.path.join(vlib.WORK, "selftest")
    shutil.rmtree(wd, ignore_errors=True)
    os.makedirs(wd, exist_ok=True)
    allc = ["C%02d" % i for i in range(1, 21)] + ["EXT"]
    problems = []
    problems += _run_family("board", "board", ["--histories", 10, "--subtrees", 2, "--transpositions", 2, "--plies", 10,
                                                "--obs", "gen,genfor,abort,islegal,tryplay,status,text,rebuild,fresh,same,san,sanread,acc", "--heavy-every", 3],
                            "Trace_Board", allc, board_corruptions(), wd)
    vals = os.path.join(wd, "vals")
    problems += _run_family("bb", "bb", ["--cases", 40], "Trace_Values", allc, [c for c in values_corruptions() if c[1].startswith("bb")], wd)
    problems += _run_family("pm", "pm", ["--cases", 30, "--boards", 2], "Trace_Values", allc, [c for c in values_corruptions() if c[1] == "pm"], wd)
    problems += _run_family("coord", "coord", ["--move-fuzz", 50], "Trace_Values", allc, [c for c in values_corruptions() if c[1] in ("offs", "txt", "names")], wd)
    problems += _run_family("geom", "geom", ["--rook-squares", 1, "--bishop-squares", 2, "--random-occ", 20], "Trace_Values", allc, [c for c in values_corruptions() if c[1] in ("leap", "bl", "sl", "pq")], wd)
    problems += _run_family("parse", "parse", ["--bases", 3, "--random", 10, "--edits", 3], "Trace_Parse", allc, [c for c in parse_corruptions() if c[1] == "parse"], wd)
    problems += _run_family("cand", "cand", ["--bases", 6, "--random", 5, "--mutations", 3], "Trace_Parse", allc, [c for c in parse_corruptions() if c[1] == "build"], wd)
    problems += _run_family("starts", "starts", ["--pairs", 10], "Trace_Parse", allc, [c for c in parse_corruptions() if c[1] == "start"], wd)
    problems += _run_family("hash", "hashkeys", ["--linear", 5, "--linear-960", 2, "--witnesses", 1], "Trace_Hash", allc, hash_corruptions(), wd)
    if problems:
        for p in problems:
            print("SELFTEST-FAILURE: " + p)
        raise ToolError("binding self-test failed (%d problems)" % len(problems))
    log("[selftest] all binding self-tests passed")
    return 0
