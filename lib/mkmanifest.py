#!/usr/bin/env python3
"""Regenerate /verif/MANIFEST.json from the job tables (lib/props.py) and lib/claims.py."""
import json, os, sys
VERIF = os.path.dirname(os.path.dirname(os.path.abspath(__file__)))
sys.path.insert(0, os.path.join(VERIF, "lib"))
from props import PROPS
from claims import CLAIMS, NOT_APPLICABLE

props = [json.loads(l) for l in open(os.path.join(VERIF, "properties.jsonl"))]
checks = []
na = []
for p in props:
    pid = p["id"]
    if pid in PROPS and pid in CLAIMS:
        c = CLAIMS[pid]
        checks.append({
            "property_id": pid,
            "quick_cmd": "./check %s quick" % pid,
            "thorough_cmd": "./check %s thorough" % pid,
            "evidence_file": "/verif/evidence/%s.json" % pid,
            "replay_cmd_template": "./check %s --replay {path}" % pid,
            "engine": "tlc+harness",
            "level_claimed": {"category": "model_checking", "text": c["text"], "design_ref": c.get("design_ref", "DESIGN.md section 6, " + pid)},
            "level_note": c["note"],
            "technique": c["technique"],
        })
    else:
        na.append({"property_id": pid, "reason": NOT_APPLICABLE.get(pid, "check not built yet (work in progress; see DESIGN.md section 11)")})
m = {
    "version": 1,
    "setup_cmd": "./check setup",
    "hooks": {"guard": "cozy_chess_verif",
              "enable": "no hooks are needed: every property is observable through the public API; the harness (/verif/harness) builds /repo/cozy-chess as a path dependency from the current working tree",
              "baseline_off_cmd": "cd /repo && cargo test --workspace --no-fail-fast --offline",
              "source_commits": [], "add_only": True},
    "engines": [{"name": "tlc+harness", "path": "/verif/check",
                 "serves_properties": [c["property_id"] for c in checks],
                 "kind_free_text": "explicit TLA+ specification (/verif/spec) checked with TLC; Rust recorder/replayer (/verif/harness) binds it to the implementation: recorded executions are judged by trace specifications (impl -> spec), TLC-generated cases are replayed against the library (spec -> impl)"}],
    "checks": checks,
    "notes": "See DESIGN.md. Exit 0 held / 1 VIOLATION line with replay file / 2 tool error. known_findings.txt lists repaired defects (fixed:) and recorded findings.",
    "not_applicable": na,
}
json.dump(m, open(os.path.join(VERIF, "MANIFEST.json"), "w"), indent=1)
print("MANIFEST.json: %d checks, %d not_applicable" % (len(checks), len(na)))
