#!/usr/bin/env python3
"""Build seeded/<id>/meta.json (property, what it needs, what was run) and seeded/INDEX.md from the agent's
description, my own confirmation run (confirm.json) and the detection runs (detect.json)."""
import json, os, glob
VERIF = os.path.dirname(os.path.dirname(os.path.abspath(__file__)))
rows = []
for d in sorted(glob.glob(os.path.join(VERIF, "seeded", "C*-*"))):
    mid = os.path.basename(d)
    def load(n):
        p = os.path.join(d, n)
        try:
            return json.load(open(p))
        except Exception:
            return {}
    a, c, det = load("agent_meta.json"), load("confirm.json"), load("detect.json")
    confirmed = bool(c) and c.get("patch_applies") == 1 and c.get("demo_exit_without_patch") == 0 and c.get("demo_exit_with_patch") not in (0, -1) and c.get("suite_exit_with_patch") == 0
    meta = {
        "id": mid, "property": mid.split("-")[0],
        "summary": a.get("summary", ""), "needs_to_manifest": a.get("needs", ""),
        "produced_by": "independent sub-agent given only the property text and a scratch worktree",
        "confirmed_by_me": confirmed,
        "confirmation": c,
        "what_i_ran": ["lib/confirm_mutant.sh %s (scratch worktree /tmp/conf/wt: demo without patch, demo with patch, full suite with patch)" % mid,
                       "python3 lib/mutants.py run %s <props> (git -C /repo apply; ./check <prop> quick; git -C /repo apply -R)" % mid],
        "detected_by": {p: {"exit": v.get("exit"), "first": v.get("first", [])[-1:] } for p, v in det.items()},
    }
    json.dump(meta, open(os.path.join(d, "meta.json"), "w"), indent=1)
    caught = [p for p, v in det.items() if v.get("exit") == 1]
    chk = ""
    for p in caught:
        f = det[p].get("first", [])
        if f:
            import re
            m = re.search(r"check=(\S+) job=(\S+)", f[-1])
            if m:
                chk = "%s (%s)" % (m.group(1), m.group(2))
                break
    rows.append((mid, "yes" if confirmed else ("pending" if not c else "NO"), ", ".join(caught) if caught else "-", chk, (a.get("summary", "") or "")[:150].replace("|", "/").replace("\n", " ")))
with open(os.path.join(VERIF, "seeded", "INDEX.md"), "w") as fh:
    fh.write("# Seeded changes (each breaks one property, compiles, passes the 30 baseline tests)\n\n")
    fh.write("| id | confirmed | caught by quick check of | first failing check (job) | change |\n|---|---|---|---|---|\n")
    for r in rows:
        fh.write("| %s | %s | %s | %s | %s |\n" % r)
    ext = sorted(glob.glob(os.path.join(VERIF, "seeded", "EXT-*")))
    if ext:
        fh.write("\nChanges delivered by the sub-agents that break no listed property (their authors said so); the checks report them as `EXT` notes, exit 0:\n\n| id | change | note printed by |\n|---|---|---|\n")
        for d in ext:
            try:
                a = json.load(open(os.path.join(d, "agent_meta.json")))
            except Exception:
                a = {}
            note = ""
            try:
                note = open(os.path.join(d, "note.txt")).read().strip()
            except Exception:
                pass
            fh.write("| %s | %s | %s |\n" % (os.path.basename(d), (a.get("summary", "") or "")[:200].replace("|", "/").replace("\n", " "), note))
    n = len(rows); c = sum(1 for r in rows if r[2] != "-")
    fh.write("\n%d seeded changes, %d caught by the quick tier of the targeted property's check (after the strengthenings recorded in DESIGN.md section 12).\n" % (n, c))
print(open(os.path.join(VERIF, "seeded", "INDEX.md")).read()[-400:])
