"""Per-property job tables: which recorder runs, which trace spec, which checks, which Mode A configurations."""

BOARD_ASSUME = ["TLC 1.8.0 evaluates the TLA+ definitions faithfully",
                "the recorder's projection (piece_on/color_on/castle_rights/en_passant/clocks/checkers/pinned/hash) reports the board's state; the bitboard accessors are cross-checked against it by the EXT/acc events",
                "coverage is the set of recorded histories of this run (seeded), not all accepted boards"]


def board_job(name, obs, checks, q, t, variant="release", extra_common=None, **kw):
    common = {"obs": ",".join(obs)}
    if extra_common:
        common.update(extra_common)
    j = {"type": "trace", "name": name, "driver": "board", "spec": "Trace_Board", "variant": variant, "checks": checks,
         "args": {"common": common, "quick": q, "thorough": t}}
    j.update(kw)
    return j


PROPS = {
    "C01": {
        "rule": "states visited by seeded histories (corpus, curated, 960/DFRC starts, constructed builder states; random walks, full subtrees below curated roots); an observation is non-trivial when the position has at least one legal move",
        "assumptions": BOARD_ASSUME,
        "jobs": [
            board_job("gen-magic", ["gen"], ["C01"], {"histories": 500, "subtrees": 48, "deep": 2}, {"histories": 30000, "subtrees": 200, "deep": 30}, sample_kinds=["reset", "gen", "play"]),
            board_job("gen-pext", ["gen"], ["C01"], {"histories": 250, "subtrees": 10}, {"histories": 15000, "subtrees": 200, "deep": 10}, variant="pext", seed_offset=7919, sample_kinds=["gen"]),
        ],
    },
    "C02": {
        "rule": "transitions (position, legal move, successor) recorded along seeded histories; every legal move of every curated root and of the first 2 roots' successors is played",
        "assumptions": BOARD_ASSUME,
        "jobs": [
            board_job("play", [], ["C02"], {"histories": 900, "subtrees": 48, "deep": 3}, {"histories": 60000, "subtrees": 200, "deep": 40}, sample_kinds=["reset", "play"]),
        ],
    },
    "C03": {
        "rule": "every logged state after reset / play / null move; rebuild through the builder must be == ; transposition pairs",
        "assumptions": BOARD_ASSUME,
        "jobs": [
            board_job("derived", ["rebuild"], ["C03", "C09"], {"histories": 900, "subtrees": 48, "deep": 2, "transpositions": 150}, {"histories": 60000, "subtrees": 200, "deep": 40, "transpositions": 5000}, sample_kinds=["play", "null", "rebuild", "pair"]),
        ],
        "report": ["C03", "C09"],
    },
    "C04": {
        "rule": "all 64*64*7 move values swept through is_legal on every visited state; non-trivial = state with a legal move",
        "assumptions": BOARD_ASSUME,
        "jobs": [
            board_job("islegal", ["islegal"], ["C04"], {"histories": 500, "subtrees": 48, "deep": 1}, {"histories": 40000, "subtrees": 200, "deep": 30}, sample_kinds=["reset", "islegal"]),
        ],
    },
    "C07": {
        "rule": "both texts of every visited state, re-read through from_fen (both modes) and FromStr, re-formatted; route pairs for == <=> equal text",
        "assumptions": BOARD_ASSUME,
        "jobs": [
            board_job("text", ["text"], ["C07"], {"histories": 600, "subtrees": 48, "transpositions": 100}, {"histories": 50000, "subtrees": 200, "deep": 20, "transpositions": 3000}, sample_kinds=["text", "pair"]),
        ],
        "report": ["C07", "C03"],
    },
    "C10": {
        "rule": "hash / hash_without_ep of every logged state against boards freshly built from the same position by text and builder routes with other clocks and without ep; transposition pairs",
        "assumptions": BOARD_ASSUME,
        "jobs": [
            board_job("hash", ["fresh"], ["C10"], {"histories": 700, "subtrees": 48, "deep": 1, "transpositions": 200}, {"histories": 50000, "subtrees": 200, "deep": 30, "transpositions": 6000}, sample_kinds=["fresh", "pair", "null"]),
        ],
        "report": ["C10", "C03"],
    },
    "C12": {
        "rule": "status() on every visited state; histories include clock setters (99, 100), mates and stalemates from curated roots",
        "assumptions": BOARD_ASSUME,
        "jobs": [
            board_job("status", ["status"], ["C12"], {"histories": 900, "subtrees": 48, "deep": 2}, {"histories": 60000, "subtrees": 200, "deep": 40}, sample_kinds=["status", "sethmc"]),
        ],
    },
    "C13": {
        "rule": "same_position on pairs (self, predecessor, other clocks, ep cleared, ep set on every accepted file, right dropped, side flipped, non-pawn beside the double-pushed pawn), both argument orders",
        "assumptions": BOARD_ASSUME,
        "jobs": [
            board_job("same", ["same"], ["C13"], {"histories": 250, "subtrees": 20}, {"histories": 20000, "subtrees": 200, "deep": 10}, sample_kinds=["same"]),
        ],
    },
    "C14": {
        "rule": "null_move attempted after every move of the curated subtrees and randomly inside histories",
        "assumptions": BOARD_ASSUME,
        "jobs": [
            board_job("null", ["rebuild"], ["C14", "C03", "C10"], {"histories": 900, "subtrees": 48, "deep": 2}, {"histories": 60000, "subtrees": 200, "deep": 40}, sample_kinds=["null", "rebuild"]),
        ],
        "report": ["C14"],
    },
    "C15": {
        "rule": "all 64*64*7 move values through try_play on a clone of every visited state; play() on all accepted plus sampled rejected values; refused moves inside histories",
        "assumptions": BOARD_ASSUME,
        "jobs": [
            board_job("tryplay", ["tryplay"], ["C15"], {"histories": 400, "subtrees": 48}, {"histories": 30000, "subtrees": 200, "deep": 20}, sample_kinds=["tryplay", "play"]),
        ],
    },
    "C16": {
        "rule": "generate_moves_for on ~20 masks per state (empty, full, own, kinds, singletons, random and complements, pinned set, ep origins) and every abort index for two masks",
        "assumptions": BOARD_ASSUME,
        "jobs": [
            board_job("masks", ["gen", "genfor", "abort"], ["C16"], {"histories": 250, "subtrees": 48}, {"histories": 15000, "subtrees": 200, "deep": 10}, sample_kinds=["genfor", "abort"]),
        ],
    },
    "C20": {
        "rule": "SAN/UCI writer output and reader round trip for every legal move of visited states; reader queries: mutated canonical SAN, long and partial spellings",
        "assumptions": BOARD_ASSUME,
        "jobs": [
            board_job("san", ["san", "sanread"], ["C20"], {"histories": 120, "subtrees": 30}, {"histories": 6000, "subtrees": 200, "deep": 5}, sample_kinds=["san", "sanread"]),
        ],
    },
}
