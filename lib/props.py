"""Per-property job tables: which recorder runs, which trace spec, which checks, which Mode A configurations."""

BOARD_ASSUME = ["TLC 1.8.0 evaluates the TLA+ definitions faithfully",
                "the recorder's projection (piece_on/color_on/castle_rights/en_passant/clocks/checkers/pinned/hash) reports the board's state; the bitboard accessors are cross-checked against it by the EXT/acc events",
                "coverage is the set of recorded histories of this run (seeded), not all accepted boards"]


VALUE_ASSUME = ["TLC 1.8.0 evaluates the TLA+ definitions faithfully",
                "arguments and results are logged as lists of squares; the recorder does no comparison itself",
                "the 2^64 argument spaces are sampled (stratified), the finite ones named in the rule are enumerated completely"]


def value_job(name, driver, checks, q, t, variant="release", **kw):
    j = {"type": "trace", "name": name, "driver": driver, "spec": "Trace_Values", "variant": variant, "checks": checks,
         "args": {"common": {}, "quick": q, "thorough": t}}
    j.update(kw)
    return j


def parse_job(name, driver, checks, q, t, variant="release", **kw):
    j = {"type": "trace", "name": name, "driver": driver, "spec": "Trace_Parse", "variant": variant, "checks": checks,
         "args": {"common": {}, "quick": q, "thorough": t}}
    j.update(kw)
    return j


def chess_model(name, invariants, properties, q, t, **kw):
    """Mode A: bounded model checking of Chess.tla (implementation-shaped layer against the rules layer)."""
    j = {"type": "model", "name": name, "spec": "Chess", "invariants": ["Sample"] + invariants, "properties": properties, "constraints": ["DepthBound"],
         "params": {"quick": {"workers": 16, "xmx": "8g", "timeout": 1500, "mc": q}, "thorough": {"workers": 16, "xmx": "12g", "timeout": 6000, "mc": t}}}
    j.update(kw)
    return j


MCQ = {"roots": "curated", "depth": 1, "sweep": 0, "max_roots": 110}
MCT = {"roots": "curated", "depth": 2, "sweep": 0, "max_roots": 70}


def castle_gen(name, obs, checks, qmod, **kw):
    """Mode C: TLC-enumerated castling situations (Gen_Castle.tla) run on the library and judged by Trace_Board."""
    j = {"type": "gen", "name": name, "gen_spec": "Gen_Castle", "driver": "board", "spec": "Trace_Board", "checks": checks,
         "args": {"common": {"obs": ",".join(obs)}},
         "params": {"quick": {"gencfg": {"kinds": 3, "mod": qmod, "rem": 0}, "workers": 8}, "thorough": {"gencfg": {"kinds": 4, "mod": 1, "rem": 0}, "workers": 16, "xmx": "10g", "timeout": 3600}}}
    j.update(kw)
    return j


def ep_gen(name, obs, checks, qmod, **kw):
    """Mode C: TLC-enumerated en-passant situations (Gen_Ep.tla) run on the library and judged by Trace_Board."""
    j = {"type": "gen", "name": name, "gen_spec": "Gen_Ep", "driver": "board", "spec": "Trace_Board", "checks": checks,
         "args": {"common": {"obs": ",".join(obs), "gen-play": "pawnking"}},
         "params": {"quick": {"gencfg": {"mod": qmod, "rem": 0, "kmod": 8, "krem": 0}, "workers": 8},
                    "thorough": {"gencfg": {"mod": 6, "rem": 0, "kmod": 1, "krem": 0}, "workers": 16, "xmx": "10g", "timeout": 3600}}}
    j.update(kw)
    return j


def check_gen(name, obs, checks, qmod, **kw):
    """Mode C: TLC-enumerated piece x origin x enemy-king situations (Gen_Check.tla), every move played."""
    j = {"type": "gen", "name": name, "gen_spec": "Gen_Check", "driver": "board", "spec": "Trace_Board", "checks": checks,
         "args": {"common": {"obs": ",".join(obs), "gen-play": "all"}},
         "params": {"quick": {"gencfg": {"mod": qmod, "rem": 0}, "workers": 8}, "thorough": {"gencfg": {"mod": 1, "rem": 0}, "workers": 16, "xmx": "10g", "timeout": 3600}}}
    j.update(kw)
    return j


def pin_gen(name, obs, checks, qmod, **kw):
    """Mode C: TLC-enumerated pin situations (Gen_Pin.tla), every move played."""
    j = {"type": "gen", "name": name, "gen_spec": "Gen_Pin", "driver": "board", "spec": "Trace_Board", "checks": checks,
         "args": {"common": {"obs": ",".join(obs), "gen-play": "all"}},
         "params": {"quick": {"gencfg": {"mod": qmod, "rem": 0, "kmod": 8, "krem": 0}, "workers": 8},
                    "thorough": {"gencfg": {"mod": 4, "rem": 0, "kmod": 1, "krem": 0}, "workers": 16, "xmx": "10g", "timeout": 3600}}}
    j.update(kw)
    return j


def promo_gen(name, obs, checks, qmod, tmod=2, **kw):
    """Mode C: TLC-enumerated promotion situations (Gen_Promo.tla): captures of rooks holding rights, checks along the back rank, pins from behind; every move played."""
    j = {"type": "gen", "name": name, "gen_spec": "Gen_Promo", "driver": "board", "spec": "Trace_Board", "checks": checks,
         "args": {"common": {"obs": ",".join(obs), "gen-play": "all"}},
         "params": {"quick": {"gencfg": {"mod": qmod, "rem": 0}, "workers": 8}, "thorough": {"gencfg": {"mod": tmod, "rem": 0}, "workers": 16, "xmx": "10g", "timeout": 3600}}}
    j.update(kw)
    return j


def mate_gen(name, obs, checks, **kw):
    """Mode C: TLC-enumerated three- and four-piece endings (Gen_Mate.tla): mates, stalemates, checks, clock 99/100."""
    j = {"type": "gen", "name": name, "gen_spec": "Gen_Mate", "driver": "board", "spec": "Trace_Board", "checks": checks,
         "args": {"common": {"obs": ",".join(obs), "gen-play": "none"}},
         "params": {"quick": {"gencfg": {"amod": 64, "arem": 0, "bmod": 16, "brem": 0, "cmod": 64, "crem": 0, "mod": 4, "rem": 0}, "workers": 8},
                    "thorough": {"gencfg": {"amod": 8, "arem": 0, "bmod": 4, "brem": 0, "cmod": 16, "crem": 0, "mod": 4, "rem": 0}, "workers": 16, "xmx": "10g", "timeout": 3600}}}
    j.update(kw)
    return j


def board_job(name, obs, checks, q, t, variant="release", extra_common=None, **kw):
    common = {"obs": ",".join(obs)}
    if extra_common:
        common.update(extra_common)
    j = {"type": "trace", "name": name, "driver": "board", "spec": "Trace_Board", "variant": variant, "checks": checks,
         "args": {"common": common, "quick": q, "thorough": t}}
    j.update(kw)
    return j


PROPS = {
    "C01": {
        "rule": "states visited by seeded histories (corpus, curated, 960/DFRC starts, constructed builder states; random walks, full subtrees below curated roots); an observation is non-trivial when the position has at least one legal move",
        "assumptions": BOARD_ASSUME,
        "jobs": [
            promo_gen("promotion-cases", ["gen"], ["C01"], 40, seed_offset=71),
            pin_gen("pin-cases", ["gen"], ["C01"], 20, seed_offset=41),
            ep_gen("ep-cases", ["gen"], ["C01"], 50, seed_offset=3),
            castle_gen("castling-cases", ["gen"], ["C01"], 40),
            chess_model("model-gen", ["WellFormed", "GenExact"], [], MCQ, MCT),
            board_job("gen-magic", ["gen"], ["C01"], {"histories": 500, "subtrees": 260, "deep": 2}, {"histories": 30000, "subtrees": 400, "deep": 30}, sample_kinds=["reset", "gen", "play"]),
            board_job("gen-pext", ["gen"], ["C01"], {"histories": 250, "subtrees": 10}, {"histories": 15000, "subtrees": 400, "deep": 10}, variant="pext", seed_offset=7919, sample_kinds=["gen"]),
        ],
    },
    "C02": {
        "rule": "transitions (position, legal move, successor) recorded along seeded histories; every legal move of every curated root and of the first 2 roots' successors is played",
        "assumptions": BOARD_ASSUME,
        "jobs": [
            promo_gen("promotion-cases", ["acc"], ["C02"], 40, seed_offset=73),
            ep_gen("ep-cases", ["acc"], ["C02"], 50, seed_offset=17),
            castle_gen("castling-cases", ["acc"], ["C02"], 40, seed_offset=13),
            chess_model("model-play", ["WellFormed"], ["SuccOK"], MCQ, MCT),
            board_job("play", ["acc"], ["C02"], {"histories": 900, "subtrees": 260, "deep": 3}, {"histories": 60000, "subtrees": 400, "deep": 40}, sample_kinds=["reset", "play"]),
        ],
    },
    "C03": {
        "rule": "every logged state after reset / play / null move; rebuild through the builder must be == ; transposition pairs",
        "assumptions": BOARD_ASSUME,
        "jobs": [
            promo_gen("promotion-cases", ["rebuild"], ["C03", "C09"], 60, seed_offset=79),
            pin_gen("pin-cases", [], ["C03"], 20, seed_offset=43),
            check_gen("check-geometries", [], ["C03"], 40, seed_offset=5),
            ep_gen("ep-cases", ["rebuild"], ["C03", "C09"], 50, seed_offset=23),
            chess_model("model-derived", ["DerivedOK", "CheckersAreAttackers", "FreshEqual"], [], MCQ, MCT),
            board_job("derived", ["rebuild"], ["C03", "C09"], {"histories": 900, "subtrees": 260, "deep": 2, "transpositions": 150}, {"histories": 60000, "subtrees": 400, "deep": 40, "transpositions": 5000}, sample_kinds=["play", "null", "rebuild", "pair"]),
        ],
        "report": ["C03", "C09"],
    },
    "C04": {
        "rule": "all 64*64*7 move values swept through is_legal on every visited state; non-trivial = state with a legal move",
        "assumptions": BOARD_ASSUME,
        "jobs": [
            promo_gen("promotion-cases", ["islegal"], ["C04"], 80, tmod=4, seed_offset=83),
            pin_gen("pin-cases", ["islegal"], ["C04"], 30, seed_offset=47),
            ep_gen("ep-cases", ["islegal"], ["C04"], 80, seed_offset=31),
            castle_gen("castling-cases", ["islegal"], ["C04"], 60, seed_offset=29),
            chess_model("model-islegal", ["IsLegalOK"], [], dict(MCQ, sweep=2), dict(MCT, sweep=2, max_roots=40)),
            board_job("islegal", ["islegal"], ["C04"], {"histories": 500, "subtrees": 160, "deep": 1}, {"histories": 40000, "subtrees": 400, "deep": 30}, sample_kinds=["reset", "islegal"]),
        ],
    },
    "C07": {
        "rule": "both texts of every visited state, re-read through from_fen (both modes) and FromStr, re-formatted; route pairs for == <=> equal text",
        "assumptions": BOARD_ASSUME,
        "jobs": [
            chess_model("model-text", ["CanonRoundTrip", "ParseModelRoundTrip"], [], MCQ, MCT),
            board_job("text", ["text"], ["C07"], {"histories": 600, "subtrees": 260, "transpositions": 100}, {"histories": 200000, "subtrees": 400, "deep": 20, "transpositions": 10000}, sample_kinds=["text", "pair"]),
        ],
        "report": ["C07", "C03"],
    },
    "C10": {
        "rule": "hash / hash_without_ep of every logged state against boards freshly built from the same position by text and builder routes with other clocks and without ep; transposition pairs",
        "assumptions": BOARD_ASSUME,
        "jobs": [
            promo_gen("promotion-cases", ["fresh"], ["C10"], 60, seed_offset=89),
            chess_model("model-hash", ["HashPure", "FreshEqual"], [], dict(MCQ, setters=1), dict(MCT, setters=1)),
            parse_job("texts", "parse", ["C10"], {"bases": 60, "random": 100, "edits": 20}, {"bases": 4000, "random": 10000, "edits": 40}, sample_kinds=["parse"]),
            board_job("hash", ["fresh"], ["C10"], {"histories": 700, "subtrees": 260, "deep": 1, "transpositions": 200}, {"histories": 50000, "subtrees": 400, "deep": 30, "transpositions": 6000}, sample_kinds=["fresh", "pair", "null"]),
        ],
        "report": ["C10", "C03"],
    },
    "C12": {
        "rule": "status() on every visited state; histories include clock setters (99, 100), mates and stalemates from curated roots",
        "assumptions": BOARD_ASSUME,
        "jobs": [
            promo_gen("promotion-cases", ["status"], ["C12"], 100, seed_offset=103),
            pin_gen("pin-cases", ["status"], ["C12"], 30, seed_offset=67),
            mate_gen("endings", ["status"], ["C12"], seed_offset=3),
            chess_model("model-status", ["StatusOK"], [], dict(MCQ, setters=1), dict(MCT, setters=1)),
            board_job("status", ["status"], ["C12"], {"histories": 900, "subtrees": 260, "deep": 2}, {"histories": 60000, "subtrees": 400, "deep": 40}, sample_kinds=["status", "sethmc"]),
        ],
    },
    "C13": {
        "rule": "same_position on pairs (self, predecessor, other clocks, ep cleared, ep set on every accepted file, right dropped, side flipped, non-pawn beside the double-pushed pawn), both argument orders",
        "assumptions": BOARD_ASSUME,
        "jobs": [
            ep_gen("ep-cases", ["same"], ["C13"], 100, seed_offset=37),
            chess_model("model-same", ["SameAsSelf", "SameVsNoEp"], [], MCQ, MCT),
            board_job("same", ["same"], ["C13"], {"histories": 200, "subtrees": 160}, {"histories": 20000, "subtrees": 400, "deep": 10}, sample_kinds=["same"]),
        ],
    },
    "C14": {
        "rule": "null_move attempted after every move of the curated subtrees and randomly inside histories",
        "assumptions": BOARD_ASSUME,
        "jobs": [
            chess_model("model-null", ["NullEnabledOK", "DerivedOK", "HashPure"], ["NullOK"], MCQ, MCT),
            board_job("null", ["rebuild"], ["C14", "C03", "C10"], {"histories": 900, "subtrees": 260, "deep": 2}, {"histories": 250000, "subtrees": 400, "deep": 40}, sample_kinds=["null", "rebuild"]),
        ],
        "report": ["C14"],
    },
    "C15": {
        "rule": "all 64*64*7 move values through try_play on a clone of every visited state; play() on all accepted plus sampled rejected values; refused moves inside histories",
        "assumptions": BOARD_ASSUME,
        "jobs": [
            promo_gen("promotion-cases", ["tryplay"], ["C15"], 120, tmod=6, seed_offset=97),
            castle_gen("castling-cases", ["tryplay"], ["C15"], 120, seed_offset=61),
            ep_gen("ep-cases", ["tryplay"], ["C15"], 120, seed_offset=59),
            chess_model("model-tryplay", ["TryPlayOK", "IsLegalOK"], ["SuccOK"], dict(MCQ, sweep=1), dict(MCT, sweep=1)),
            board_job("tryplay", ["tryplay"], ["C15"], {"histories": 400, "subtrees": 160}, {"histories": 30000, "subtrees": 400, "deep": 20}, sample_kinds=["tryplay", "play"]),
        ],
    },
    "C16": {
        "rule": "generate_moves_for on ~20 masks per state (empty, full, own, kinds, singletons, random and complements, pinned set, ep origins) and every abort index for two masks",
        "assumptions": BOARD_ASSUME,
        "jobs": [
            promo_gen("promotion-cases", ["gen", "genfor", "abort"], ["C16"], 150, tmod=16, seed_offset=107),
            chess_model("model-masks", ["BatchesOK", "MaskLaw"], [], MCQ, dict(MCT, max_roots=40)),
            board_job("masks", ["gen", "genfor", "abort"], ["C16"], {"histories": 250, "subtrees": 160}, {"histories": 15000, "subtrees": 400, "deep": 10}, sample_kinds=["genfor", "abort"]),
        ],
    },
    "C20": {
        "rule": "SAN/UCI writer output and reader round trip for every legal move of visited states; reader queries: mutated canonical SAN, long and partial spellings",
        "assumptions": BOARD_ASSUME,
        "jobs": [
            promo_gen("promotion-cases", ["san", "sanread"], ["C20"], 120, seed_offset=101),
            chess_model("model-san", ["SanCanonical", "SanImplOK"], [], dict(MCQ, max_roots=30), dict(MCT, depth=1)),
            board_job("san", ["san", "sanread"], ["C20"], {"histories": 120, "subtrees": 30, "roots-file": "roots/san.sfen"}, {"histories": 30000, "subtrees": 400, "deep": 5, "roots-file": "roots/san.sfen"}, sample_kinds=["san", "sanread"]),
        ],
    },
    "C17": {
        "rule": "exhaustive: PMIter machine over 6 kinds x 128 destination subsets x all prefixes (Mode A); sampled: random (piece, origin, destination set) batches and batches from real generation, each with the full 28 672-value membership sweep",
        "assumptions": VALUE_ASSUME,
        "jobs": [
            {"type": "model", "name": "pmiter-machine", "spec": "MC_PMIter", "exhaustive": True,
             "params": {"quick": {"workers": 4, "bounds": "6 piece kinds x all 128 subsets of 7 destination squares (a1 d1 h1 b4 e5 c8 h8), every prefix of the iteration"},
                        "thorough": {"workers": 4, "bounds": "6 piece kinds x all 128 subsets of 7 destination squares (a1 d1 h1 b4 e5 c8 h8), every prefix of the iteration"}}},
            value_job("pm", "pm", ["C17"], {"cases": 1500, "boards": 60}, {"cases": 400000, "boards": 20000}, sample_kinds=["pm"]),
            value_job("pm-overflow-checks", "pm", ["C17"], {"cases": 600, "boards": 20}, {"cases": 40000, "boards": 2000}, variant="dev", seed_offset=37, sample_kinds=["pm"]),
        ],
    },
    "C18": {
        "rule": "exhaustive: carry-rippler machine for all 256 masks of an 8-bit universe (Mode A); sampled: stratified random bitboard pairs (empty, full, singletons, ranks/files, sparse, dense, random, related pairs) through every operator, iteration, subset iteration of masks up to 8 (quick) / 12 (thorough) bits",
        "assumptions": VALUE_ASSUME,
        "jobs": [
            {"type": "model", "name": "carry-rippler-machine", "spec": "MC_Rippler", "exhaustive": True,
             "params": {"quick": {"workers": 4, "bounds": "all 256 masks of an 8-bit universe, every step"}, "thorough": {"workers": 4, "bounds": "all 256 masks of an 8-bit universe, every step"}}},
            value_job("bb", "bb", ["C18"], {"cases": 4000, "subset-bits": 8}, {"cases": 600000, "subset-bits": 12}, sample_kinds=["bb_op", "bb_iter", "bb_subsets"]),
            value_job("bb-overflow-checks", "bb", ["C18"], {"cases": 1200, "subset-bits": 6}, {"cases": 60000, "subset-bits": 10}, variant="dev", seed_offset=29, sample_kinds=["bb_iter"]),
        ],
    },
    "C19": {
        "rule": "all 64 squares x offset pairs (quick: |d| <= 9 plus extremes; thorough: all 65 536) in a build with and one without overflow checks; every enum value's text; all strings of length <= 2 over an 18-symbol alphabet; move texts: legal-shape values, near misses, random strings",
        "assumptions": VALUE_ASSUME,
        "jobs": [
            {"type": "model", "name": "model-coordinates", "spec": "MC_Coord", "exhaustive": True,
             "params": {"quick": {"workers": 12, "xmx": "6g", "bounds": "all 64 squares x 256 x 256 offset pairs; every value of every text type incl. all 20 480 legal-shape moves; all 1- and 2-letter texts over an 18-symbol alphabet"},
                        "thorough": {"workers": 16, "xmx": "6g", "bounds": "all 64 squares x 256 x 256 offset pairs; every value of every text type incl. all 20 480 legal-shape moves; all 1- and 2-letter texts over an 18-symbol alphabet"}}},
            value_job("coord-release", "coord", ["C19"], {"move-fuzz": 3000}, {"move-fuzz": 1500000, "full-offsets": 1, "all-moves": 1}, sample_kinds=["offs", "txt", "sq"]),
            value_job("coord-overflow-checks", "coord", ["C19"], {"move-fuzz": 1000}, {"move-fuzz": 300000, "full-offsets": 1}, variant="dev", seed_offset=31, sample_kinds=["offs"]),
        ],
    },
    "C05": {
        "rule": "leaper/pawn/ray tables for all 64 squares, between/line for all 4096 pairs, pawn pushes for all (square, colour) x 4 occupancy classes x random rest; sliders: every subset of the relevant mask x 3 fillings of the irrelevant bits (quick: all bishop squares, 16 rook squares; thorough: all) plus random occupancies; magic, PEXT and overflow-checked builds",
        "assumptions": VALUE_ASSUME,
        "jobs": [
            {"type": "model", "name": "model-geometry", "spec": "MC_Geometry", "exhaustive": True,
             "params": {"quick": {"workers": 12, "xmx": "6g", "geom_mc": {"rook": 16}}, "thorough": {"workers": 16, "xmx": "8g", "geom_mc": {"rook": 64}}}},
            value_job("geom-magic", "geom", ["C05"], {"rook-squares": 12, "random-occ": 3000}, {"rook-squares": 64, "random-occ": 1000000}, sample_kinds=["sl", "leap", "pq"]),
            value_job("geom-pext", "geom", ["C05"], {"rook-squares": 6, "bishop-squares": 32, "random-occ": 2000}, {"rook-squares": 64, "random-occ": 200000}, variant="pext", seed_offset=17, sample_kinds=["sl"]),
            value_job("geom-overflow-checks", "geom", ["C05"], {"rook-squares": 2, "bishop-squares": 8, "random-occ": 500}, {"rook-squares": 8, "bishop-squares": 64, "random-occ": 20000}, variant="dev", seed_offset=23, sample_kinds=["sl"]),
        ],
    },
    "C06": {
        "rule": "soundness: every board returned by build() / from_fen / FromStr on candidate states and texts (accepted boards with 1-2 random mutations, targeted single-defect states per clause, random builder states, corrupted records) and every state logged along histories must satisfy Valid; acceptance: all 960 single and sampled (thorough: all 921 600) double start constructors equal Start(w,k) and positions along random play from them re-enter as text and through the builder",
        "assumptions": BOARD_ASSUME,
        "jobs": [
            {"type": "model", "name": "model-starts", "spec": "MC_Starts", "exhaustive": True,
             "params": {"quick": {"workers": 16, "xmx": "6g", "starts_mc": {"pairs": 3}}, "thorough": {"workers": 16, "xmx": "6g", "timeout": 5000, "starts_mc": {"pairs": 60}}}},
            chess_model("model-sound", ["Sound", "ReachAccepted"], [], dict(MCQ, roots="starts", max_roots=120), dict(MCT, roots="starts", depth=2, max_roots=300)),
            parse_job("candidates", "cand", ["C06"], {"bases": 250, "mutations": 8, "random": 400}, {"bases": 12000, "mutations": 12, "random": 30000}, sample_kinds=["build"]),
            parse_job("starts", "starts", ["C06"], {"pairs": 2500}, {"all-pairs": 1}, sample_kinds=["start"]),
            parse_job("texts", "parse", ["C06"], {"bases": 40, "random": 300, "edits": 20}, {"bases": 2500, "random": 30000, "edits": 40}, sample_kinds=["parse"]),
            board_job("reachable", ["text", "rebuild"], ["C06", "C07", "C09"], {"histories": 700, "subtrees": 0, "root-mix": "starts", "plies": 70}, {"histories": 40000, "subtrees": 0, "root-mix": "starts", "plies": 90}, sample_kinds=["reset", "play", "rebuild"]),
        ],
        "report": ["C06"],
    },
    "C08": {
        "rule": "texts: canonical records (Shredder and plain) of accepted boards; every single-field replacement from a per-field catalogue of malformed / unsupported / grey values; truncations, extensions, extra spaces; removed / duplicated ranks; random character edits; random strings; each through from_fen(false), from_fen(true) and FromStr",
        "assumptions": VALUE_ASSUME,
        "jobs": [
            {"type": "gen", "name": "ep-records", "gen_spec": "Gen_Ep", "driver": "parse", "spec": "Trace_Parse", "checks": ["C08"], "seed_offset": 53,
             "args": {"common": {"bases": 0, "random": 0}},
             "params": {"quick": {"gencfg": {"mod": 40, "rem": 0, "kmod": 8, "krem": 0, "unsound": 1}, "workers": 8},
                        "thorough": {"gencfg": {"mod": 6, "rem": 0, "kmod": 1, "krem": 0, "unsound": 1}, "workers": 16, "xmx": "10g", "timeout": 3600}}},
            {"type": "model", "name": "model-parser", "spec": "MC_Parse", "exhaustive": True,
             "params": {"quick": {"workers": 12, "xmx": "6g", "parse_mc": {"bases": 2, "alphabet": [32, 47, 45, 48, 49, 56, 57, 119, 75, 72, 104, 101, 54, 80, 120, 43]}},
                        "thorough": {"workers": 16, "xmx": "10g", "timeout": 5000, "parse_mc": {"bases": 24, "alphabet": [32, 47, 45, 48, 49, 56, 57, 119, 98, 75, 81, 107, 113, 72, 65, 104, 97, 101, 54, 51, 80, 112, 82, 120, 43]}}}},
            parse_job("texts", "parse", ["C08", "EXT"], {"bases": 60, "random": 600, "edits": 30, "catalogue-pct": 60}, {"bases": 4000, "random": 60000, "edits": 60, "catalogue-pct": 100}, sample_kinds=["parse"]),
        ],
    },
    "C09": {
        "rule": "builder states: accepted boards' builder images, 1-2 random mutations of them, targeted single-aspect corruptions, random states; each built and its record (checked against RecordOf) parsed by from_fen(true) and FromStr",
        "assumptions": VALUE_ASSUME,
        "jobs": [
            parse_job("candidates", "cand", ["C09", "EXT"], {"bases": 300, "mutations": 10, "random": 500, "targeted-pct": 40}, {"bases": 60000, "mutations": 14, "random": 150000, "targeted-pct": 60}, sample_kinds=["build"]),
        ],
        "report": ["C09"],
    },
    "C11": {
        "rule": "every observable key of the Zobrist table (633 non-king keys: 608 piece, 16 right, 8 ep, side; 2 x 63 king keys relative to e1/e8) extracted from pairs of accepted boards differing in one feature, several witnesses each; then all C(633,2) = 200 028 pair XORs and 2 x 2016 king-move XORs compared exhaustively; linear model validated on corpus and DFRC boards; every played move and null move must change the hash",
        "assumptions": ["TLC 1.8.0 and the CommunityModules Bitwise override compute XOR on 16-bit limbs correctly",
                        "the hash is the XOR of per-feature keys (linear model) -- validated by the same run on the sampled boards, and each key is checked to be independent of the witness pair",
                        "keys of pawns on the first/eighth rank and absolute king keys are not observable through accepted boards and constrain no board; combinations are checked without regard to whether they are realisable differences, which is stronger than the property"],
        "jobs": [
            {"type": "trace", "name": "extract", "driver": "hashkeys", "spec": "Trace_Hash", "variant": "release", "checks": ["C11"], "shards": 1,
             "args": {"common": {}, "quick": {"linear": 300, "linear-960": 100, "witnesses": 2}, "thorough": {"linear": 60000, "linear-960": 15000, "witnesses": 6}}, "sample_kinds": ["key", "lin"]},
            {"type": "model", "name": "decide", "spec": "MC_HashKeys", "trace_from": "extract", "exhaustive": True,
             "params": {"quick": {"workers": 1, "xmx": "4g", "bounds": "all 633 extracted non-king keys, all 200 028 unordered pairs, all 2 x 2016 king-square pairs"},
                        "thorough": {"workers": 1, "xmx": "4g", "bounds": "all 633 extracted non-king keys, all 200 028 unordered pairs, all 2 x 2016 king-square pairs"}}},
            board_job("moves-change-hash", [], ["C11"], {"histories": 1200, "subtrees": 260, "deep": 3}, {"histories": 300000, "subtrees": 400, "deep": 60}, sample_kinds=["play", "null"]),
        ],
    },
}
